#!/bin/bash
# development helper: run every thorough check in sequence, print a summary line each
cd "$(dirname "$0")/.."
for p in ${@:-C03 C04 C05 C09 C12 C13 C17 C15 C07 C06 C10 C14 C16 C08 C18 C11 C02 C01 C19}; do
  s=$(date +%s)
  timeout 7200 ./run.sh check $p thorough > /tmp/thorough_$p.log 2>&1
  rc=$?
  e=$(date +%s)
  echo "$p rc=$rc secs=$((e-s)) $(grep -c 'INCONCLUSIVE' /tmp/thorough_$p.log) inconclusive-lines $(grep -c '^VIOLATION' /tmp/thorough_$p.log) violations"
done
