#!/bin/bash
# tools/seed_eval.sh <seed-dir with patch.diff + *_test.go> <demo test regexp> <prop> [<prop>...]
# 1. verifies the seed in a fresh scratch worktree (suite green with patch; demo fails with, passes without)
# 2. applies the patch to /repo, runs the quick checks of the given properties, undoes the patch
set -u
export GOFLAGS=-mod=mod GOPROXY=off GOSUMDB=off GOTOOLCHAIN=local
sd=$1; demo=$2; shift 2
wt=/tmp/wt_eval_$$
git -C /repo worktree add -q --detach $wt HEAD || exit 2
cd $wt
git apply $sd/patch.diff || { echo "patch does not apply"; git -C /repo worktree remove --force $wt; exit 2; }
go build ./... || { echo BUILD-FAIL; }
suite=$(go test -count=1 ./x/... 2>&1 | grep -c "^ok")
echo "suite-with-patch: $suite packages ok"
for f in $sd/*_test.go; do
  pkgdir=x/fundraising/keeper
  grep -q "^package types" $f && pkgdir=x/fundraising/types
  grep -q "^package fundraising" $f && pkgdir=x/fundraising/module
  cp $f $pkgdir/
done
with=$(go test -count=1 ./x/... -run "$demo" 2>&1 | grep -c "^FAIL\|^--- FAIL")
git apply -R $sd/patch.diff
without=$(go test -count=1 ./x/... -run "$demo" 2>&1 | grep -c "^FAIL\|^--- FAIL")
echo "demo-with-patch-failures: $with ; demo-without-patch-failures: $without"
cd /
git -C /repo worktree remove --force $wt
cd /verif
git -C /repo apply $sd/patch.diff || exit 2
for p in "$@"; do
  ./run.sh check $p quick > /tmp/seed_$p.log 2>&1; rc=$?
  echo "check $p rc=$rc $(grep -c '^VIOLATION' /tmp/seed_$p.log) violation-lines; labels: $(grep -o 'label [A-Za-z0-9._-]*' /tmp/seed_$p.log | sort -u | tr '\n' ' ')"
done
git -C /repo checkout -- .
git -C /repo status --short
