#!/bin/bash
# tools/seed_regress.sh [seed-dir-glob...]: re-evaluate kept seeded changes against the current checks.
# For every seeded/<id>/ the patch is applied in a scratch worktree (never /repo itself) and the quick
# check of every property in meta.json "breaks_properties" is run; a line per (seed, property) is printed:
# CAUGHT (exit 1 with a natively confirmed VIOLATION), or MISSED rc=<n>.
set -u
export GOFLAGS=-mod=mod GOPROXY=off GOSUMDB=off GOTOOLCHAIN=local
cd "$(dirname "$0")/.."
V=$PWD
seeds=${@:-$V/seeded/S*}
for sd in $seeds; do
  id=$(basename $sd)
  props=$(python3 -c "import json;print(' '.join(json.load(open('$sd/meta.json'))['breaks_properties']))")
  wt=/tmp/wt_reg_$$; hc=/tmp/h_reg_$$
  git -C /repo worktree add -q --detach $wt HEAD || exit 2
  ( cd $wt && git apply $sd/patch.diff ) || { echo "$id patch-does-not-apply"; git -C /repo worktree remove --force $wt; continue; }
  cp -r $V/harness $hc
  sed -i "s|replace github.com/tendermint/fundraising => /repo|replace github.com/tendermint/fundraising => $wt|" $hc/go.mod
  for p in $props; do
    line=$(grep -E "^$p[[:space:]]+quick[[:space:]]" $V/checks.tsv | head -1)
    harnesses=$(echo "$line" | cut -f3); params=$(echo "$line" | cut -f4); extra=$(echo "$line" | cut -f5)
    s=$(date +%s)
    $V/bin/gosym -harness-dir $hc -known $V/known_findings.json -replay-dir /tmp/replays_reg_$$ -property $p -tier quick -run "$harnesses" -params "$params" -out /tmp/ev_reg_$$.json $extra > /tmp/seedreg_${id}_$p.log 2>&1; rc=$?
    e=$(date +%s)
    if [ $rc -eq 1 ] && grep -q '^VIOLATION' /tmp/seedreg_${id}_$p.log; then
      echo "$id $p CAUGHT secs=$((e-s)) labels: $(grep -o 'label [A-Za-z0-9._-]*' /tmp/seedreg_${id}_$p.log | sort -u | sed 's/label //' | tr '\n' ' ')"
    else
      echo "$id $p MISSED rc=$rc secs=$((e-s)) log=/tmp/seedreg_${id}_$p.log"
    fi
  done
  rm -rf $hc /tmp/replays_reg_$$ /tmp/ev_reg_$$.json
  git -C /repo worktree remove --force $wt
done
