import json,sys
props={json.loads(l)['id']:json.loads(l) for l in open('/verif/properties.jsonl')}
pid,wt,hint=sys.argv[1],sys.argv[2],sys.argv[3]
p=props[pid]
print(f'''You are helping test a verification framework by producing a realistic, subtle bug ("seeded change") in a Go codebase.

The codebase is tendermint/fundraising, a Cosmos SDK module implementing on-chain fixed-price and batch auctions (x/fundraising/keeper, x/fundraising/types, x/fundraising/module are the core). You have your OWN scratch git worktree at {wt} — work ONLY inside {wt} (never touch /repo or /verif, never read /verif). The sandbox has no network. Go commands work offline; if needed use: export GOFLAGS=-mod=mod GOPROXY=off GOSUMDB=off GOTOOLCHAIN=local

PROPERTY that your change must break:
"{p['title']}: {p['statement']}"

{hint}

TASK: make a small change to the NON-TEST source code under {wt}/x/fundraising such that:
1. the code still compiles (`go build ./...`) and the ENTIRE existing test suite still passes: `cd {wt} && go test -count=1 ./x/...` (do not edit existing tests);
2. the property above is violated by the changed code, but only under something SPECIFIC: a particular multi-step sequence of operations, an unusual input, a boundary instant (time exactly equal to a start/end/release time), a failure at a particular point, or two cooperating sites that each look fine alone. It must NOT be something any ordinary use would expose at once (the existing tests must not notice it).
3. you write a demonstration: a NEW Go test file (e.g. {wt}/x/fundraising/keeper/seeded_demo_test.go, package keeper_test; you may reuse the KeeperTestSuite helpers in keeper/keeper_test.go such as s.createFixedPriceAuction / s.createBatchAuction / s.placeBidFixedPrice / s.placeBidBatchWorth / s.placeBidBatchMany / s.fundAddr / s.getBalance; look at the existing tests for usage) that FAILS with your change and PASSES without it (verify both; do NOT use `git stash` — the stash is shared between worktrees of other people — instead save your change with `git diff > /tmp/my.patch` and use `git apply -R` / `git apply`).

Prefer a change that looks like a plausible refactoring slip. Do not pick a change that merely re-introduces something a comment in the code explicitly warns about.

DELIVERABLES (write them under {wt}/seeded_out/):
- patch.diff : `git diff` of ONLY the source change (not the demo test)
- the demonstration test file (copy, named *_test.go)
- notes.md : which clause it breaks, what specific condition is needed to manifest it, and the exact commands you ran with their pass/fail outcome (with the change: existing suite passes + demo fails; without the change: demo passes).
Finish by printing the content of notes.md. Do not commit anything.''')
