#!/usr/bin/env python3
"""Regenerates /verif/MANIFEST.json from checks.tsv and the tables below."""
import json, os, sys
ROOT = os.path.dirname(os.path.dirname(os.path.abspath(__file__)))

COMMON = "Bounded symbolic model checking of the real code: the harness functions and everything they call inside github.com/tendermint/fundraising are executed from go/ssa (rebuilt from /repo on every run) with every amount, price, weight, cap and instant a symbolic integer; each assertion is an SMT query (path condition and negated assertion) decided for all values within the stated shape bounds; counterexamples are replayed against the real build before being reported. "
LEVEL_TEXT = {
 "C01": COMMON + "Here: one operation (each message, the allow-list API, one block) from an arbitrary state satisfying the representation invariant RI, asserting that each escrow balance equals what the stored records owe plus third-party donations (settlement sweeps). Histories of any length are covered by induction over RI.",
 "C02": COMMON + "Here: per-operation zero-sum over all tracked accounts, exact caller deltas (fee + reservation), fixed-price settlement accounting against the reference allocation, batch settlement transfers against the plan announced to the settlement hook, plus an SSA scan that module code never calls mint/burn/module-account transfers.",
 "C03": COMMON + "Here: the real CalculateBatchAllocation (BidsByPrice, sort, binary search, Match) against a linear-scan reference over the bids' own prices with per-bidder capped demand; every order book of up to N bids (types, owners, duplicate prices, dust bids) with symbolic prices/amounts/caps.",
 "C04": COMMON + "Here: conversion helpers for all price/amount pairs (ceil/floor bounds) and, on the real matching result, the payment bands per bidder (paid*S >= price*qty, < price*qty + k*S, <= reserved, clearing price <= own limit, losers refunded in full).",
 "C05": COMMON + "Here: allocations from real matching/settlement never exceed cap, request or supply (batch: on the matching result; fixed price: accept-iff cumulative cap and remainder at bid time, allocation = sum of accepted quantities at settlement).",
 "C06": COMMON + "Here: MsgPlaceBid on a fixed-price auction from an arbitrary RI-state with up to N earlier bids: accept iff reference predicate (both directions), remainder decremented exactly, earlier bids untouched, escrow and bidder deltas exact.",
 "C07": COMMON + "Here: BeginBlocker from every RI-state of one and two auctions (all types/statuses) at a symbolic block time returns nil and does not panic; with a failure injected into the k-th bank call of the block (every k), the block returns an error whichever auction the call belonged to and whichever round (final, extending or early-settling) the batch auction is in.",
 "C08": COMMON + "Here: status relation and timing of every operation with symbolic instants (start/end/release vs block time, including equality): waiting->open iff start<=t (settling in the same block when the end is reached too), open->settled/extended iff end<=t, terminal statuses permanent, creation open iff start<=t, bids/modifications/cancel only in the right status.",
 "C09": COMMON + "Here: at settlement the instalments are floor shares with the remainder in the last and sum exactly to the proceeds (k<=2 quick, k<=4 thorough); a vesting auction pays an instalment in a block iff it is due and unreleased, flags it, never twice, and finishes iff all are released.",
 "C10": COMMON + "Here: (1) PlaceBid accepts only allow-listed bidders (RI conjunct: every stored bid has an entry; no operation removes entries); (2) MsgAddAllowedBidder writes only when the process-wide switch is true (switch symbolic); (3) the switch's value after executing, with the same executor, the package initialisers of every in-module package in cmd/fundraisingd's import closure that names the variable (every SSA Store to it is listed).",
 "C11": COMMON + "Here: MsgModifyBid accept iff owner, open batch auction, same denom, price floor, both not lower and one higher, funds for the difference of ceilings; charged difference exact; other bids and bid identity unchanged; no operation removes a bid or lowers its reservation.",
 "C12": COMMON + "Here: MsgCancelAuction for every signer x status x type x existence: accepted iff auctioneer and waiting; on accept the whole escrow goes back, remainder zero, status cancelled; with C08 (cancelled/opened permanent) nobody can cancel after opening.",
 "C13": COMMON + "Here: at an end time with rounds left the real decision (banker's-rounded decimal quotient) is compared with the exact rule up to a one-ulp band, L (stored count) symbolic, C from real matching; extension appends exactly one period; len(EndTimes) <= MaxExtendedRound+1 <= 31 is inductive.",
 "C14": COMMON + "Here: self-composition: the same settlement block is executed twice from identical symbolic states, the second time with every range over a Go map inside the module iterating in an arbitrary order (one site at a time in quick, all combinations in thorough); ordered bank transfers, result, records and balances must coincide. Process independence: the same committed PlaceBid on two processes, one of which first executed a PlaceBid on a branched context that is thrown away (store and events rolled back, process memory kept), must store the same bid, counter, transfers, balances and events. A static SSA scan lists every map range / go / select / clock / random source in module code and fails the check if one is not exercised.",
 "C15": COMMON + "Here: ExportGenesis from RI-states (2 allowed bidders, bids, instalments, mid-extension batch auctions) -> GenesisState.Validate must accept -> InitGenesis into an empty store -> every record, sequence and parameter equal; then the same later block on both.",
 "C16": COMMON + "Here: final settlement of a batch auction whose bids carry arbitrary provisional flags: flag iff the bidder received coins, published matched price = price actually paid (0 iff nothing sold); Get*/List* query handlers (closures executed, paginator modelled as an ordered walk) return exactly the stored objects satisfying the request.",
 "C17": COMMON + "Here: the multi-listener dispatcher for each of the ten hook methods, n listeners, every failing position: error iff a listener failed, listeners before it called once with the dispatcher's own argument terms, later ones not called; and each call site: success => called exactly once with the values stored/transferred and before (after, for After*) the record is written; veto => the operation (or the block) reports an error — in the final round and in the early-settlement branch of an extended batch auction; the ModifyBid listener is told the recorded bidder whichever bech32 case the signer used.",
 "C18": COMMON + "Here: each message type with all fields symbolic including malformed ones (signs, denoms, addresses, times, bid types, absent auction) in RI-states of every type/status: ValidateBasic+handler accepts iff a reference predicate written from the documentation (both directions), and an accepted message stores exactly the announced record.",
 "C19": COMMON + "Here: frame: with a bystander auction B sharing auctioneer, bidder and denoms, processing/operating on A leaves every record, counter and escrow balance of B term-identical; terms: after every operation the agreed terms of the target auction and the identity of its bids are unchanged; ids: creation uses AuctionSeq and increments it, bids get BidSeq+1.",
}
NOTES = {p: "Trusted base: exact integer semantics of ~60 cosmossdk.io/math intrinsics (validated every run by witness replay of real arithmetic), store/bank/distribution/context models (every harness's witness scenario is replayed against simapp with the real x/bank and KV store and all observed values must agree), go/ssa. Bounds per tier are in checks.tsv and in the evidence (harness bounds), summarised in DESIGN.md section 12 'Bounds as finally registered': quick = 1 target auction (+1 bystander), general shapes with <=1 bid and <=2 instalments/end times plus narrow multi-bid variants (2 fixed-price bids, 2 batch bids in the second round, 3-bid order books in the matching harness, 4 instalments), amounts and raw prices < 2^100; thorough = general shapes with <=3 instalments/end times and 2 candidate bidders, narrow variants with 2-3 bids of up to 2 bidders, 3-4 bid order books, message harnesses with <=2 existing bids (C12: 3), < 2^128; listeners <=3 quick, <=4 thorough. Every 100th discharged assertion is re-checked by a second solver (cvc5). Overflow panics of the 256/315-bit library limits are outside the claim (amounts bounded). Atomicity of rejected transactions is the SDK cache-context contract (assumed)." for p in LEVEL_TEXT}
NOT_APPLICABLE = {
 "C20": "start-up and command wiring of the linked binary is decided by reflection-heavy dependency code (autocli/cobra/protoregistry) over a constant command table; there is no symbolic input to quantify over and the code is out of reach of the SSA encoder (DESIGN §7)",
}
PENDING = "no check registered"

def main():
    props = [json.loads(l) for l in open(os.path.join(ROOT, "properties.jsonl"))]
    rows = {}
    for l in open(os.path.join(ROOT, "checks.tsv")):
        l = l.rstrip("\n")
        if not l or l.startswith("#"):
            continue
        f = l.split("\t")
        rows.setdefault(f[0], {})[f[1]] = f
    checks, na = [], []
    for p in props:
        pid = p["id"]
        if pid in rows and "quick" in rows[pid]:
            c = {
                "property_id": pid,
                "quick_cmd": f"./run.sh check {pid} quick",
                "evidence_file": f"/verif/evidence/{pid}.json",
                "replay_cmd_template": "./run.sh replay {path}",
                "engine": "gosym",
                "level_claimed": {"category": "model_checking", "text": LEVEL_TEXT.get(pid, "Bounded symbolic model checking of the real go/ssa code with an SMT solver."), "design_ref": f"DESIGN.md §6 {pid}"},
                "level_note": NOTES.get(pid, "see DESIGN.md §2.3, §4"),
                "technique": "bounded symbolic execution of the module's go/ssa code + SMT (z3 5.1 primary, cvc5/z3 4.8 portfolio); counterexamples replayed natively",
            }
            if "thorough" in rows[pid]:
                c["thorough_cmd"] = f"./run.sh check {pid} thorough"
            checks.append(c)
        else:
            na.append({"property_id": pid, "reason": NOT_APPLICABLE.get(pid, PENDING)})
    m = {
        "version": 1,
        "setup_cmd": "./setup.sh",
        "hooks": {"guard": "verif", "enable": "no hooks are needed: harnesses use only exported API of /repo (build tag verifsym lives in /verif/harness only)", "baseline_off_cmd": "cd /repo && go test -count=1 ./x/...", "source_commits": [], "add_only": True},
        "engines": [{"name": "gosym", "path": "/verif/engine", "serves_properties": [c["property_id"] for c in checks], "kind_free_text": "SSA symbolic executor (golang.org/x/tools/go/ssa v0.29.0) emitting SMT-LIB2 over integers; z3 5.1 / cvc5 1.0.3 / z3 4.8.12"}],
        "checks": checks,
        "not_applicable": na,
        "notes": "All checks rebuild from /repo's working tree (go/packages load + SSA build per run; native replay binary built per run). See DESIGN.md.",
    }
    json.dump(m, open(os.path.join(ROOT, "MANIFEST.json"), "w"), indent=1)
    print("wrote MANIFEST.json:", len(checks), "checks,", len(na), "not applicable")

main()
