#!/usr/bin/env python3
"""Regenerates /verif/MANIFEST.json from checks.tsv and the tables below."""
import json, os, sys
ROOT = os.path.dirname(os.path.dirname(os.path.abspath(__file__)))

LEVEL_TEXT = {
 "C04": "Bounded symbolic model checking: the real conversion, matching and payment code is executed symbolically from go/ssa with fully symbolic prices and amounts; each bound of the property is an SMT query over all values (non-linear integer arithmetic), unsat = holds for every price/amount within the stated bit width and order-book size.",
 "C06": "Bounded symbolic model checking: MsgPlaceBid is executed symbolically (ValidateBasic + msgServer + keeper) from an arbitrary RI-state of a fixed-price auction with up to N earlier bids; accept/reject is compared with a reference predicate in both directions and the remainder/escrow/bid record are compared with the expected ledger for all amounts and prices.",
}
NOTES = {
 "C04": "Trusted: SMT semantics of cosmossdk.io/math intrinsics (exact integer formulas incl. banker's rounding), go/ssa translation. Bounds: amounts and raw prices below 2^bits (128 quick / 256 thorough).",
 "C06": "Trusted: collections/bank/distribution models (witness scenarios replayed against the real keepers each run), math intrinsics. Bounds: <=1 (quick) / <=2 (thorough) earlier bids, two candidate bidders, amounts < 2^100 / 2^128; histories covered by induction over the representation invariant.",
}
NOT_APPLICABLE = {
 "C20": "start-up and command wiring of the linked binary is decided by reflection-heavy dependency code (autocli/cobra/protoregistry) over a constant command table; there is no symbolic input to quantify over and the code is out of reach of the SSA encoder (DESIGN §7)",
}
PENDING = "check not built yet in this session (see DESIGN §11 order of work)"

def main():
    props = [json.loads(l) for l in open(os.path.join(ROOT, "properties.jsonl"))]
    rows = {}
    for l in open(os.path.join(ROOT, "checks.tsv")):
        l = l.rstrip("\n")
        if not l or l.startswith("#"):
            continue
        f = l.split("\t")
        rows.setdefault(f[0], {})[f[1]] = f
    checks, na = [], []
    for p in props:
        pid = p["id"]
        if pid in rows and "quick" in rows[pid]:
            c = {
                "property_id": pid,
                "quick_cmd": f"./run.sh check {pid} quick",
                "evidence_file": f"/verif/evidence/{pid}.json",
                "replay_cmd_template": "./run.sh replay {path}",
                "engine": "gosym",
                "level_claimed": {"category": "model_checking", "text": LEVEL_TEXT.get(pid, "Bounded symbolic model checking of the real go/ssa code with an SMT solver."), "design_ref": f"DESIGN.md §6 {pid}"},
                "level_note": NOTES.get(pid, "see DESIGN.md §2.3, §4"),
                "technique": "bounded symbolic execution of the module's go/ssa code + SMT (z3 5.1 primary, cvc5/z3 4.8 portfolio); counterexamples replayed natively",
            }
            if "thorough" in rows[pid]:
                c["thorough_cmd"] = f"./run.sh check {pid} thorough"
            checks.append(c)
        else:
            na.append({"property_id": pid, "reason": NOT_APPLICABLE.get(pid, PENDING)})
    m = {
        "version": 1,
        "setup_cmd": "./setup.sh",
        "hooks": {"guard": "verif", "enable": "no hooks are needed: harnesses use only exported API of /repo (build tag verifsym lives in /verif/harness only)", "baseline_off_cmd": "cd /repo && go test -count=1 ./x/...", "source_commits": [], "add_only": True},
        "engines": [{"name": "gosym", "path": "/verif/engine", "serves_properties": [c["property_id"] for c in checks], "kind_free_text": "SSA symbolic executor (golang.org/x/tools/go/ssa v0.29.0) emitting SMT-LIB2 over integers; z3 5.1 / cvc5 1.0.3 / z3 4.8.12"}],
        "checks": checks,
        "not_applicable": na,
        "notes": "All checks rebuild from /repo's working tree (go/packages load + SSA build per run; native replay binary built per run). See DESIGN.md.",
    }
    json.dump(m, open(os.path.join(ROOT, "MANIFEST.json"), "w"), indent=1)
    print("wrote MANIFEST.json:", len(checks), "checks,", len(na), "not applicable")

main()
