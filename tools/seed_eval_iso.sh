#!/bin/bash
# tools/seed_eval_iso.sh <seed-dir> <demo test regexp> <prop> [<prop>...]
# Like seed_eval.sh but never touches /repo: the patch is applied in a scratch worktree and the
# quick checks run from a copy of the harness module whose `replace` points at that worktree.
set -u
export GOFLAGS=-mod=mod GOPROXY=off GOSUMDB=off GOTOOLCHAIN=local
sd=$1; demo=$2; shift 2
wt=/tmp/wt_iso_$$; hc=/tmp/h_iso_$$
git -C /repo worktree add -q --detach $wt HEAD || exit 2
cd $wt
git apply $sd/patch.diff || { echo "patch does not apply"; cd /; git -C /repo worktree remove --force $wt; exit 2; }
go build ./... || echo BUILD-FAIL
suite=$(go test -count=1 ./x/... 2>&1 | grep -c "^ok")
echo "suite-with-patch: $suite packages ok"
for f in $sd/*_test.go; do
  pkgdir=x/fundraising/keeper
  grep -q "^package types" $f && pkgdir=x/fundraising/types
  grep -q "^package fundraising" $f && pkgdir=x/fundraising/module
  cp $f $pkgdir/
done
with=$(go test -count=1 ./x/... -run "$demo" 2>&1 | grep -c "^FAIL\|^--- FAIL")
git apply -R $sd/patch.diff
without=$(go test -count=1 ./x/... -run "$demo" 2>&1 | grep -c "^FAIL\|^--- FAIL")
echo "demo-with-patch-failures: $with ; demo-without-patch-failures: $without"
git apply $sd/patch.diff
rm -f x/fundraising/*/seeded_demo_test.go x/fundraising/*/*seeded*_test.go
cp -r /verif/harness $hc
sed -i "s|replace github.com/tendermint/fundraising => /repo|replace github.com/tendermint/fundraising => $wt|" $hc/go.mod
cd /verif
for p in "$@"; do
  line=$(grep -E "^$p[[:space:]]+quick[[:space:]]" checks.tsv | head -1)
  harnesses=$(echo "$line" | cut -f3); params=$(echo "$line" | cut -f4); extra=$(echo "$line" | cut -f5)
  ./bin/gosym -harness-dir $hc -known /verif/known_findings.json -replay-dir /tmp/replays_iso_$$ -property $p -tier quick -run "$harnesses" -params "$params" -out /tmp/ev_iso_$$.json $extra > /tmp/seediso_${p}_$$.log 2>&1; rc=$?
  echo "check $p rc=$rc $(grep -c '^VIOLATION' /tmp/seediso_${p}_$$.log) violation-lines; labels: $(grep -o 'label [A-Za-z0-9._-]*' /tmp/seediso_${p}_$$.log | sort -u | tr '\n' ' ') log=/tmp/seediso_${p}_$$.log"
done
rm -rf $hc /tmp/replays_iso_$$ /tmp/ev_iso_$$.json
cd /; git -C /repo worktree remove --force $wt
