// Package model holds the Go models of the module's environment that are
// executed symbolically by the engine in place of x/bank and x/distribution.
// They are plain Go so that the engine treats them like any other code, and
// they follow x/bank v0.50.8 send.go (no vesting accounts, no send
// restrictions, no blocked addresses at keeper level).
package model

import (
	"context"

	sdkerrors "cosmossdk.io/errors"
	"cosmossdk.io/math"
	sdk "github.com/cosmos/cosmos-sdk/types"
	errortypes "github.com/cosmos/cosmos-sdk/types/errors"
	banktypes "github.com/cosmos/cosmos-sdk/x/bank/types"
)

// Call is one recorded bank operation (ordered effect trace).
type Call struct {
	Kind   string // "send", "inout"
	From   string
	To     string
	Denom  string
	Amount math.Int
}

type Bank struct {
	bal    map[string]math.Int // "addr|denom" -> balance
	denoms map[string][]string // addr -> sorted denoms ever held
	Calls  []Call
	NCalls int // number of keeper-level calls (SendCoins / InputOutputCoins / FundCommunityPool)
	FailAt int // 1-based index of the call that fails; 0 = none
	Failed bool
}

func NewBank() *Bank {
	return &Bank{bal: map[string]math.Int{}, denoms: map[string][]string{}}
}

func (b *Bank) Clone() *Bank {
	n := NewBank()
	for k, v := range b.bal {
		n.bal[k] = v
	}
	for k, v := range b.denoms {
		n.denoms[k] = append([]string(nil), v...)
	}
	n.Calls = append([]Call(nil), b.Calls...)
	n.NCalls = b.NCalls
	n.FailAt = b.FailAt
	return n
}

// RestoreFrom puts b back into the state of o (a Clone taken earlier), in place.
func (b *Bank) RestoreFrom(o *Bank) {
	b.bal = map[string]math.Int{}
	for k, v := range o.bal {
		b.bal[k] = v
	}
	b.denoms = map[string][]string{}
	for k, v := range o.denoms {
		b.denoms[k] = append([]string(nil), v...)
	}
	b.Calls = append([]Call(nil), o.Calls...)
	b.NCalls = o.NCalls
	b.FailAt = o.FailAt
	b.Failed = false
}

func (b *Bank) Get(addr sdk.AccAddress, denom string) math.Int {
	v, ok := b.bal[addr.String()+"|"+denom]
	if !ok {
		return math.ZeroInt()
	}
	return v
}

func (b *Bank) Set(addr sdk.AccAddress, denom string, amt math.Int) {
	a := addr.String()
	b.bal[a+"|"+denom] = amt
	ds := b.denoms[a]
	pos := len(ds)
	for i, d := range ds {
		if d == denom {
			return
		}
		if d > denom {
			pos = i
			break
		}
	}
	ds = append(ds, "")
	copy(ds[pos+1:], ds[pos:])
	ds[pos] = denom
	b.denoms[a] = ds
}

func (b *Bank) tick() bool {
	b.NCalls++
	if b.FailAt != 0 && b.NCalls == b.FailAt {
		b.Failed = true
		return true
	}
	return false
}

var errInjected = sdkerrors.Wrap(errortypes.ErrLogic, "injected bank failure")

func (b *Bank) sub(from sdk.AccAddress, amt sdk.Coins) error {
	for _, c := range amt {
		if !c.Amount.IsPositive() {
			return sdkerrors.Wrap(errortypes.ErrInvalidCoins, "invalid coins")
		}
	}
	for _, c := range amt {
		bal := b.Get(from, c.Denom)
		if bal.LT(c.Amount) {
			return sdkerrors.Wrap(errortypes.ErrInsufficientFunds, "spendable balance is smaller than the requested amount")
		}
		b.Set(from, c.Denom, bal.Sub(c.Amount))
	}
	return nil
}

func (b *Bank) add(to sdk.AccAddress, amt sdk.Coins) {
	for _, c := range amt {
		b.Set(to, c.Denom, b.Get(to, c.Denom).Add(c.Amount))
	}
}

func (b *Bank) SendCoins(ctx context.Context, from, to sdk.AccAddress, amt sdk.Coins) error {
	if b.tick() {
		return errInjected
	}
	if err := b.sub(from, amt); err != nil {
		return err
	}
	b.add(to, amt)
	for _, c := range amt {
		b.Calls = append(b.Calls, Call{Kind: "send", From: from.String(), To: to.String(), Denom: c.Denom, Amount: c.Amount})
	}
	return nil
}

func (b *Bank) SpendableCoins(ctx context.Context, addr sdk.AccAddress) sdk.Coins {
	var out sdk.Coins
	for _, d := range b.denoms[addr.String()] {
		out = append(out, sdk.Coin{Denom: d, Amount: b.Get(addr, d)})
	}
	return out
}

func (b *Bank) InputOutputCoins(ctx context.Context, input banktypes.Input, outputs []banktypes.Output) error {
	if b.tick() {
		return errInjected
	}
	// ValidateInputOutputs: valid addresses, valid positive coins, totals equal
	from, err := sdk.AccAddressFromBech32(input.Address)
	if err != nil {
		return err
	}
	if len(input.Coins) == 0 {
		return sdkerrors.Wrap(errortypes.ErrInvalidCoins, "input coins empty")
	}
	for _, c := range input.Coins {
		if !c.Amount.IsPositive() {
			return sdkerrors.Wrap(errortypes.ErrInvalidCoins, "input coins not positive")
		}
	}
	total := map[string]math.Int{}
	for _, o := range outputs {
		if _, err := sdk.AccAddressFromBech32(o.Address); err != nil {
			return err
		}
		if len(o.Coins) == 0 {
			return sdkerrors.Wrap(errortypes.ErrInvalidCoins, "output coins empty")
		}
		for _, c := range o.Coins {
			if !c.Amount.IsPositive() {
				return sdkerrors.Wrap(errortypes.ErrInvalidCoins, "output coins not positive")
			}
			t, ok := total[c.Denom]
			if !ok {
				t = math.ZeroInt()
			}
			total[c.Denom] = t.Add(c.Amount)
		}
	}
	if len(total) != len(input.Coins) {
		return banktypes.ErrInputOutputMismatch
	}
	for _, c := range input.Coins {
		t, ok := total[c.Denom]
		if !ok || !t.Equal(c.Amount) {
			return banktypes.ErrInputOutputMismatch
		}
	}
	if err := b.sub(from, input.Coins); err != nil {
		return err
	}
	for _, o := range outputs {
		to, _ := sdk.AccAddressFromBech32(o.Address)
		b.add(to, o.Coins)
		for _, c := range o.Coins {
			b.Calls = append(b.Calls, Call{Kind: "inout", From: input.Address, To: o.Address, Denom: c.Denom, Amount: c.Amount})
		}
	}
	return nil
}

func (b *Bank) SendCoinsFromAccountToModule(ctx context.Context, senderAddr sdk.AccAddress, recipientModule string, amt sdk.Coins) error {
	panic("model.Bank: SendCoinsFromAccountToModule is not used by non-simulation module code")
}

func (b *Bank) MintCoins(ctx context.Context, moduleName string, amt sdk.Coins) error {
	panic("model.Bank: MintCoins is not used by non-simulation module code")
}

func (b *Bank) SendCoinsFromModuleToAccount(ctx context.Context, senderModule string, recipientAddr sdk.AccAddress, amt sdk.Coins) error {
	panic("model.Bank: SendCoinsFromModuleToAccount is not used by non-simulation module code")
}

// CommunityPool is the bech32 address of the distribution module account.
const CommunityPool = "cosmos1jv65s3grqf6v6jl3dp4t6c9t9rk99cd88lyufl"

// Distr models x/distribution's FundCommunityPool as a transfer to the
// distribution module account.
type Distr struct{ B *Bank }

func (d Distr) FundCommunityPool(ctx context.Context, amount sdk.Coins, sender sdk.AccAddress) error {
	if d.B.tick() {
		return errInjected
	}
	pool, _ := sdk.AccAddressFromBech32(CommunityPool)
	if err := d.B.sub(sender, amount); err != nil {
		return err
	}
	d.B.add(pool, amount)
	for _, c := range amount {
		d.B.Calls = append(d.B.Calls, Call{Kind: "fee", From: sender.String(), To: CommunityPool, Denom: c.Denom, Amount: c.Amount})
	}
	return nil
}

// AddrCodec is the bech32 account address codec.
type AddrCodec struct{}

func (AddrCodec) StringToBytes(text string) ([]byte, error) {
	a, err := sdk.AccAddressFromBech32(text)
	return a, err
}

func (AddrCodec) BytesToString(bz []byte) (string, error) {
	return sdk.AccAddress(bz).String(), nil
}
