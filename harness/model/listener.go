package model

import (
	"context"
	"errors"
	"time"

	"cosmossdk.io/math"
	sdk "github.com/cosmos/cosmos-sdk/types"

	"github.com/tendermint/fundraising/x/fundraising/types"
)

// HookCall is one recorded invocation of a hook listener.
type HookCall struct {
	Method string
	U      []uint64
	S      []string
	D      []math.LegacyDec
	I      []math.Int
	T      []time.Time
	N      int // number of vesting schedule entries / allowed bidders / map entries
	Seq    int // position in the store-write order at the time of the call
}

// Listener is a hook receiver that records its calls and fails on demand.
type Listener struct {
	Name   string
	Calls  []HookCall
	FailOn string // method name on which this listener returns an error ("" = never)
	// Clock, when set, returns the number of store writes made so far (ordering check)
	Clock func() int
	// the settlement plan handed to BeforeSellingCoinsAllocated (copied)
	Alloc  map[string]math.Int
	Refund map[string]math.Int
}

var ErrVeto = errors.New("listener veto")

func (l *Listener) rec(c HookCall) error {
	if l.Clock != nil {
		c.Seq = l.Clock()
	}
	l.Calls = append(l.Calls, c)
	if l.FailOn == c.Method {
		return ErrVeto
	}
	return nil
}

func (l *Listener) Count(method string) int {
	n := 0
	for _, c := range l.Calls {
		if c.Method == method {
			n++
		}
	}
	return n
}

func (l *Listener) Last(method string) (HookCall, bool) {
	for i := len(l.Calls) - 1; i >= 0; i-- {
		if l.Calls[i].Method == method {
			return l.Calls[i], true
		}
	}
	return HookCall{}, false
}

func (l *Listener) BeforeFixedPriceAuctionCreated(ctx context.Context, auctioneer string, startPrice math.LegacyDec, sellingCoin sdk.Coin, payingCoinDenom string, vestingSchedules []types.VestingSchedule, startTime, endTime time.Time) error {
	return l.rec(HookCall{Method: "BeforeFixedPriceAuctionCreated", S: []string{auctioneer, sellingCoin.Denom, payingCoinDenom}, D: []math.LegacyDec{startPrice}, I: []math.Int{sellingCoin.Amount}, T: []time.Time{startTime, endTime}, N: len(vestingSchedules)})
}

func (l *Listener) AfterFixedPriceAuctionCreated(ctx context.Context, auctionId uint64, auctioneer string, startPrice math.LegacyDec, sellingCoin sdk.Coin, payingCoinDenom string, vestingSchedules []types.VestingSchedule, startTime, endTime time.Time) error {
	return l.rec(HookCall{Method: "AfterFixedPriceAuctionCreated", U: []uint64{auctionId}, S: []string{auctioneer, sellingCoin.Denom, payingCoinDenom}, D: []math.LegacyDec{startPrice}, I: []math.Int{sellingCoin.Amount}, T: []time.Time{startTime, endTime}, N: len(vestingSchedules)})
}

func (l *Listener) BeforeBatchAuctionCreated(ctx context.Context, auctioneer string, startPrice, minBidPrice math.LegacyDec, sellingCoin sdk.Coin, payingCoinDenom string, vestingSchedules []types.VestingSchedule, maxExtendedRound uint32, extendedRoundRate math.LegacyDec, startTime, endTime time.Time) error {
	return l.rec(HookCall{Method: "BeforeBatchAuctionCreated", U: []uint64{uint64(maxExtendedRound)}, S: []string{auctioneer, sellingCoin.Denom, payingCoinDenom}, D: []math.LegacyDec{startPrice, minBidPrice, extendedRoundRate}, I: []math.Int{sellingCoin.Amount}, T: []time.Time{startTime, endTime}, N: len(vestingSchedules)})
}

func (l *Listener) AfterBatchAuctionCreated(ctx context.Context, auctionId uint64, auctioneer string, startPrice, minBidPrice math.LegacyDec, sellingCoin sdk.Coin, payingCoinDenom string, vestingSchedules []types.VestingSchedule, maxExtendedRound uint32, extendedRoundRate math.LegacyDec, startTime, endTime time.Time) error {
	return l.rec(HookCall{Method: "AfterBatchAuctionCreated", U: []uint64{auctionId, uint64(maxExtendedRound)}, S: []string{auctioneer, sellingCoin.Denom, payingCoinDenom}, D: []math.LegacyDec{startPrice, minBidPrice, extendedRoundRate}, I: []math.Int{sellingCoin.Amount}, T: []time.Time{startTime, endTime}, N: len(vestingSchedules)})
}

func (l *Listener) BeforeAuctionCanceled(ctx context.Context, auctionId uint64, auctioneer string) error {
	return l.rec(HookCall{Method: "BeforeAuctionCanceled", U: []uint64{auctionId}, S: []string{auctioneer}})
}

func (l *Listener) BeforeBidPlaced(ctx context.Context, auctionId, bidId uint64, bidder string, bidType types.BidType, price math.LegacyDec, coin sdk.Coin) error {
	return l.rec(HookCall{Method: "BeforeBidPlaced", U: []uint64{auctionId, bidId, uint64(bidType)}, S: []string{bidder, coin.Denom}, D: []math.LegacyDec{price}, I: []math.Int{coin.Amount}})
}

func (l *Listener) BeforeBidModified(ctx context.Context, auctionId, bidId uint64, bidder string, bidType types.BidType, price math.LegacyDec, coin sdk.Coin) error {
	return l.rec(HookCall{Method: "BeforeBidModified", U: []uint64{auctionId, bidId, uint64(bidType)}, S: []string{bidder, coin.Denom}, D: []math.LegacyDec{price}, I: []math.Int{coin.Amount}})
}

func (l *Listener) BeforeAllowedBiddersAdded(ctx context.Context, allowedBidders []types.AllowedBidder) error {
	c := HookCall{Method: "BeforeAllowedBiddersAdded", N: len(allowedBidders)}
	for _, ab := range allowedBidders {
		c.U = append(c.U, ab.AuctionId)
		c.S = append(c.S, ab.Bidder)
		c.I = append(c.I, ab.MaxBidAmount)
	}
	return l.rec(c)
}

func (l *Listener) BeforeAllowedBidderUpdated(ctx context.Context, auctionId uint64, bidder sdk.AccAddress, maxBidAmount math.Int) error {
	return l.rec(HookCall{Method: "BeforeAllowedBidderUpdated", U: []uint64{auctionId}, S: []string{bidder.String()}, I: []math.Int{maxBidAmount}})
}

func (l *Listener) BeforeSellingCoinsAllocated(ctx context.Context, auctionId uint64, allocationMap, refundMap map[string]math.Int) error {
	l.Alloc, l.Refund = map[string]math.Int{}, map[string]math.Int{}
	for k, v := range allocationMap {
		l.Alloc[k] = v
	}
	for k, v := range refundMap {
		l.Refund[k] = v
	}
	return l.rec(HookCall{Method: "BeforeSellingCoinsAllocated", U: []uint64{auctionId}, N: len(allocationMap)})
}

// HookMethods lists the ten hook methods in declaration order.
var HookMethods = [...]string{
	"BeforeFixedPriceAuctionCreated", "AfterFixedPriceAuctionCreated",
	"BeforeBatchAuctionCreated", "AfterBatchAuctionCreated",
	"BeforeAuctionCanceled", "BeforeBidPlaced", "BeforeBidModified",
	"BeforeAllowedBiddersAdded", "BeforeAllowedBidderUpdated", "BeforeSellingCoinsAllocated",
}
