//go:build !verifsym

// Package env, native build: the repository's own simapp with the real
// x/bank, x/distribution and KV store; the fundraising keeper is rebuilt with
// the module's NewKeeper over the same store so that bank calls can be
// recorded and made to fail.
package env

import (
	"context"
	"fmt"
	"time"

	"cosmossdk.io/math"
	"github.com/cosmos/cosmos-sdk/runtime"
	sdk "github.com/cosmos/cosmos-sdk/types"
	errortypes "github.com/cosmos/cosmos-sdk/types/errors"
	banktypes "github.com/cosmos/cosmos-sdk/x/bank/types"
	minttypes "github.com/cosmos/cosmos-sdk/x/mint/types"

	sdkerrors "cosmossdk.io/errors"

	"github.com/tendermint/fundraising/app"
	"github.com/tendermint/fundraising/testutil/testutil/simapp"
	"github.com/tendermint/fundraising/x/fundraising/keeper"
	"github.com/tendermint/fundraising/x/fundraising/types"

	"verif/harness/model"
)

type Env struct {
	K    keeper.Keeper
	Ctx  context.Context
	Msg  types.MsgServer
	App  *app.App
	W    *bankWrap
	sctx sdk.Context
	now  time.Time

	savedCalls []model.Call
	savedN     int
}

const Authority = "cosmos10d07y265gmmuvt4z0w9aw880jnsr700j6zn9kn"

var chainSeq int

type bankWrap struct {
	app    *app.App
	Calls  []model.Call
	NCalls int
	FailAt int
	Failed bool
}

var errInjected = sdkerrors.Wrap(errortypes.ErrLogic, "injected bank failure")

func (w *bankWrap) tick() bool {
	w.NCalls++
	if w.FailAt != 0 && w.NCalls == w.FailAt {
		w.Failed = true
		return true
	}
	return false
}

func (w *bankWrap) SendCoins(ctx context.Context, from, to sdk.AccAddress, amt sdk.Coins) error {
	if w.tick() {
		return errInjected
	}
	if err := w.app.BankKeeper.SendCoins(ctx, from, to, amt); err != nil {
		return err
	}
	for _, c := range amt {
		w.Calls = append(w.Calls, model.Call{Kind: "send", From: from.String(), To: to.String(), Denom: c.Denom, Amount: c.Amount})
	}
	return nil
}

func (w *bankWrap) SpendableCoins(ctx context.Context, addr sdk.AccAddress) sdk.Coins {
	return w.app.BankKeeper.SpendableCoins(ctx, addr)
}

func (w *bankWrap) InputOutputCoins(ctx context.Context, input banktypes.Input, outputs []banktypes.Output) error {
	if w.tick() {
		return errInjected
	}
	if err := w.app.BankKeeper.InputOutputCoins(ctx, input, outputs); err != nil {
		return err
	}
	for _, o := range outputs {
		for _, c := range o.Coins {
			w.Calls = append(w.Calls, model.Call{Kind: "inout", From: input.Address, To: o.Address, Denom: c.Denom, Amount: c.Amount})
		}
	}
	return nil
}

func (w *bankWrap) SendCoinsFromAccountToModule(ctx context.Context, senderAddr sdk.AccAddress, recipientModule string, amt sdk.Coins) error {
	return w.app.BankKeeper.SendCoinsFromAccountToModule(ctx, senderAddr, recipientModule, amt)
}

func (w *bankWrap) MintCoins(ctx context.Context, moduleName string, amt sdk.Coins) error {
	return w.app.BankKeeper.MintCoins(ctx, moduleName, amt)
}

func (w *bankWrap) SendCoinsFromModuleToAccount(ctx context.Context, senderModule string, recipientAddr sdk.AccAddress, amt sdk.Coins) error {
	return w.app.BankKeeper.SendCoinsFromModuleToAccount(ctx, senderModule, recipientAddr, amt)
}

type distrWrap struct{ w *bankWrap }

func (d distrWrap) FundCommunityPool(ctx context.Context, amount sdk.Coins, sender sdk.AccAddress) error {
	if d.w.tick() {
		return errInjected
	}
	if err := d.w.app.DistrKeeper.FundCommunityPool(ctx, amount, sender); err != nil {
		return err
	}
	for _, c := range amount {
		d.w.Calls = append(d.w.Calls, model.Call{Kind: "fee", From: sender.String(), To: model.CommunityPool, Denom: c.Denom, Amount: c.Amount})
	}
	return nil
}

func New(blockTime time.Time) *Env {
	chainSeq++
	a, err := simapp.New(fmt.Sprintf("verif-%d", chainSeq))
	if err != nil {
		panic(err)
	}
	sctx := a.BaseApp.NewContext(false).WithBlockTime(blockTime)
	w := &bankWrap{app: a}
	k := keeper.NewKeeper(a.AppCodec(), a.AccountKeeper.AddressCodec(), runtime.NewKVStoreService(a.GetKey(types.StoreKey)),
		a.Logger(), Authority, a.AccountKeeper, w, distrWrap{w})
	e := &Env{K: k, App: a, W: w, sctx: sctx, now: blockTime}
	e.Ctx = sctx
	e.Msg = keeper.NewMsgServerImpl(k)
	// simapp's genesis stores default params; the harness sets its own.
	return e
}

func (e *Env) SetHooks(h types.FundraisingHooks) {
	e.K.SetHooks(h)
	e.Msg = keeper.NewMsgServerImpl(e.K)
}

func (e *Env) SetTime(t time.Time) {
	e.now = t
	e.sctx = e.sctx.WithBlockTime(t)
	e.Ctx = e.sctx
}

func (e *Env) Now() time.Time { return e.now }

func (e *Env) Bal(addr sdk.AccAddress, denom string) math.Int {
	return e.App.BankKeeper.GetBalance(e.sctx, addr, denom).Amount
}

// SetBal sets the balance of a fresh account/denomination by minting.
func (e *Env) SetBal(addr sdk.AccAddress, denom string, amt math.Int) {
	cur := e.Bal(addr, denom)
	if amt.LT(cur) {
		panic("env.SetBal: cannot lower a balance natively")
	}
	d := amt.Sub(cur)
	if d.IsZero() {
		return
	}
	coins := sdk.NewCoins(sdk.NewCoin(denom, d))
	if err := e.App.BankKeeper.MintCoins(e.sctx, minttypes.ModuleName, coins); err != nil {
		panic(err)
	}
	if err := e.App.BankKeeper.SendCoinsFromModuleToAccount(e.sctx, minttypes.ModuleName, addr, coins); err != nil {
		panic(err)
	}
}

func (e *Env) Calls() []model.Call   { return e.W.Calls }
func (e *Env) ResetCalls()           { e.W.Calls = nil; e.W.NCalls = 0 }
func (e *Env) FailAt(k int)          { e.W.FailAt = k }
func (e *Env) NCalls() int           { return e.W.NCalls }
func (e *Env) FailureInjected() bool { return e.W.Failed }

// EventMark / SameEvents: the events (the module's and the bank's) emitted through this environment's context between two marks.
func (e *Env) EventMark() int { return len(e.sctx.EventManager().Events()) }

func SameEvents(a *Env, a0, a1 int, b *Env, b0, b1 int) bool {
	ea, eb := a.sctx.EventManager().Events()[a0:a1], b.sctx.EventManager().Events()[b0:b1]
	if len(ea) != len(eb) {
		return false
	}
	for i := range ea {
		if ea[i].Type != eb[i].Type || len(ea[i].Attributes) != len(eb[i].Attributes) {
			return false
		}
		for j := range ea[i].Attributes {
			if ea[i].Attributes[j].Key != eb[i].Attributes[j].Key || ea[i].Attributes[j].Value != eb[i].Attributes[j].Value {
				return false
			}
		}
	}
	return true
}

// Branch starts, and Discard throws away, a branched execution (a cache context that is never written back).
func (e *Env) Branch() {
	cctx, _ := e.sctx.CacheContext()
	e.Ctx = cctx
	e.savedCalls, e.savedN = append([]model.Call(nil), e.W.Calls...), e.W.NCalls
}

func (e *Env) Discard() {
	e.Ctx = e.sctx
	e.W.Calls, e.W.NCalls = e.savedCalls, e.savedN
}
