//go:build verifsym

// Package env gives the harnesses one API over two environments. This file is
// the symbolic one: a real keeper.Keeper (built by the module's own
// NewKeeper) whose collections are the engine's store models and whose bank
// and distribution keepers are the Go models in verif/harness/model.
package env

import (
	"context"
	"time"

	"cosmossdk.io/math"
	sdk "github.com/cosmos/cosmos-sdk/types"

	"github.com/tendermint/fundraising/x/fundraising/keeper"
	"github.com/tendermint/fundraising/x/fundraising/types"

	"verif/harness/model"
	"verif/harness/nd"
)

type Env struct {
	K   keeper.Keeper
	Ctx context.Context
	Msg types.MsgServer
	B   *model.Bank
	now time.Time

	saved *model.Bank
}

// Authority is the module authority (x/gov module account).
const Authority = "cosmos10d07y265gmmuvt4z0w9aw880jnsr700j6zn9kn"

func New(blockTime time.Time) *Env {
	b := model.NewBank()
	k := keeper.NewKeeper(nil, model.AddrCodec{}, nil, nil, Authority, nil, b, model.Distr{B: b})
	e := &Env{K: k, B: b, now: blockTime}
	e.Ctx = nd.NewContext(blockTime)
	e.Msg = keeper.NewMsgServerImpl(k)
	return e
}

// SetHooks registers hook listeners (must be called before any operation).
func (e *Env) SetHooks(h types.FundraisingHooks) {
	e.K.SetHooks(h)
	e.Msg = keeper.NewMsgServerImpl(e.K)
}

func (e *Env) SetTime(t time.Time) {
	e.now = t
	e.Ctx = nd.NewContext(t)
}

func (e *Env) Now() time.Time { return e.now }

func (e *Env) Bal(addr sdk.AccAddress, denom string) math.Int { return e.B.Get(addr, denom) }

// SetBal sets the balance of a fresh account/denomination.
func (e *Env) SetBal(addr sdk.AccAddress, denom string, amt math.Int) { e.B.Set(addr, denom, amt) }

func (e *Env) Calls() []model.Call   { return e.B.Calls }
func (e *Env) ResetCalls()           { e.B.Calls = nil; e.B.NCalls = 0 }
func (e *Env) FailAt(k int)          { e.B.FailAt = k }
func (e *Env) NCalls() int           { return e.B.NCalls }
func (e *Env) FailureInjected() bool { return e.B.Failed }

// EventMark / SameEvents: the events emitted through this environment's context between two marks.
func (e *Env) EventMark() int { return nd.EventMark() }

func SameEvents(a *Env, a0, a1 int, b *Env, b0, b1 int) bool { return nd.SameEvents(a0, a1, b0, b1) }

// Branch starts, and Discard throws away, a branched execution (what a simulated or failed transaction is):
// store writes, bank balances and events are rolled back, the keeper value (process memory) is not.
func (e *Env) Branch() {
	e.saved = e.B.Clone()
	nd.StoreBranch()
}

func (e *Env) Discard() {
	nd.StoreDiscard()
	e.B.RestoreFrom(e.saved)
}
