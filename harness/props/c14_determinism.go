package props

import (
	sdk "github.com/cosmos/cosmos-sdk/types"
	fundraising "github.com/tendermint/fundraising/x/fundraising/module"
	"github.com/tendermint/fundraising/x/fundraising/types"

	"verif/harness/env"
	"verif/harness/model"
	"verif/harness/nd"
)

func init() {
	register("H_C14_Settle", H_C14_Settle)
	register("H_C14_SetHooks", H_C14_SetHooks)
	register("H_C14_Process", H_C14_Process)
	register("H_C14_TwoAuctions", H_C14_TwoAuctions)
}

// H_C14_TwoAuctions: a block in which two auctions of different statuses both move
// coins (a vesting auction with a due instalment and a fixed-price auction reaching
// its end time) executed twice; the second time every map range inside the module
// iterates in an arbitrary order. The ordered transfers must coincide.
func H_C14_TwoAuctions() {
	now := nd.Time("now")
	run := func() c14Result {
		e := env.New(now)
		setParams(e, "p.")
		A := buildAuction(e, "a.", aSpec{id: 0, status: types.AuctionStatusVesting, auctioneer: 0, nBids: 0, nSched: 1, nEnd: 1, nUsers: 1, allowAll: true})
		B := buildAuction(e, "b.", aSpec{id: 1, status: types.AuctionStatusStarted, auctioneer: 0, nBids: 1, nSched: 0, nEnd: 1, nUsers: 1, allowAll: true})
		C := buildAuction(e, "c.", aSpec{id: 2, status: types.AuctionStatusStandBy, auctioneer: 0, nBids: 0, nSched: 0, nEnd: 1, nUsers: 1, allowAll: true, batch: true})
		setAuctionSeq(e, 3)
		nd.Assume(!A.queues[0].ReleaseTime.After(now))
		nd.Assume(!B.base.EndTimes[0].After(now))
		nd.Assume(!C.base.EndTimes[0].After(now)) // opens and settles in this block
		e.ResetCalls()
		m0 := e.EventMark()
		err := e.K.BeginBlocker(e.Ctx)
		return c14Result{e: e, err: err, calls: e.Calls(), st: B, m0: m0, m1: e.EventMark()}
	}
	first := run()
	reps := 1
	if !nd.Symbolic() {
		reps = nd.Param("nativeReps", 32)
	}
	nd.Option("permute-maps")
	for r := 0; r < reps; r++ {
		second := run()
		nd.Assert("C14.two-auctions-same-result", (first.err == nil) == (second.err == nil))
		nd.Assert("C14.two-auctions-same-ordered-events", env.SameEvents(first.e, first.m0, first.m1, second.e, second.m0, second.m1))
		nd.Assert("C14.two-auctions-same-number-of-transfers", len(first.calls) == len(second.calls))
		if len(first.calls) == len(second.calls) {
			for i := range first.calls {
				a, b := first.calls[i], second.calls[i]
				nd.Assert("C14.two-auctions-same-ordered-transfers", a.Kind == b.Kind && a.From == b.From && a.To == b.To && a.Denom == b.Denom && nd.And(a.Amount.Equal(b.Amount)))
			}
		}
	}
	if first.err == nil {
		nd.Cover("three-auctions-processed")
	}
}

// H_C14_SetHooks: the order in which hook listeners of several modules are
// registered (and therefore called) does not depend on the iteration order of
// the map they are supplied in.
func H_C14_SetHooks() {
	now := nd.Time("now")
	order := func(permute bool) []string {
		e := env.New(now)
		var log []string
		mk := func(name string) *model.Listener {
			l := &model.Listener{Name: name}
			l.Clock = func() int { log = append(log, name); return 0 }
			return l
		}
		hooks := map[string]types.FundraisingHooks{"gamma": mk("gamma"), "alpha": mk("alpha"), "beta": mk("beta")}
		if permute {
			nd.Option("permute-maps")
		}
		k := e.K
		err := fundraising.InvokeSetHooks(&k, hooks)
		nd.Assert("C14.sethooks-succeeds", err == nil)
		_ = k.BeforeAuctionCanceled(e.Ctx, 0, user(0))
		return log
	}
	first := order(false)
	reps := 1
	if !nd.Symbolic() {
		reps = 16
	}
	for r := 0; r < reps; r++ {
		second := order(true)
		nd.Assert("C14.hook-order-independent-of-map-order", len(first) == 3 && len(second) == 3 && first[0] == second[0] && first[1] == second[1] && first[2] == second[2])
	}
	nd.Assert("C14.hook-order-lexical", len(first) == 3 && first[0] == "alpha" && first[1] == "beta" && first[2] == "gamma")
	nd.Cover("hooks-registered")
}

type c14Result struct {
	e      *env.Env
	err    error
	calls  []model.Call
	st     *aState
	m0, m1 int // event marks around the block
}

// H_C14_Settle: self-composition. The same settlement block is executed twice
// from identical states (same symbolic inputs); in the second execution every
// range over a Go map inside the module takes an arbitrary iteration order
// (engine option permute-maps; natively the runtime randomises, and the second
// execution is repeated). The ordered bank transfers, the result and the
// resulting records and balances must be identical.
func H_C14_Settle() {
	now := nd.Time("now")
	batch := nd.Pick("batch", 2) == 1
	nSched := nd.Pick("nSched", 2)
	run := func() c14Result {
		e := env.New(now)
		setParams(e, "p.")
		sp := aSpec{id: 0, batch: batch, status: types.AuctionStatusStarted, auctioneer: 0, nBids: nd.Param("bids", 2),
			nSched: nSched, nEnd: 1, nUsers: nd.Param("users", 2), allowAll: true, flagsFalse: true}
		st := buildAuction(e, "a.", sp)
		setAuctionSeq(e, 1)
		nd.Assume(!st.base.EndTimes[0].After(now)) // the block settles the auction
		if batch {
			nd.Assume(st.batchA.MaxExtendedRound == 0)
		}
		e.ResetCalls()
		m0 := e.EventMark()
		err := e.K.BeginBlocker(e.Ctx)
		return c14Result{e: e, err: err, calls: e.Calls(), st: st, m0: m0, m1: e.EventMark()}
	}
	first := run()
	// every bidder owns a bid, so that the per-bidder maps have several entries
	seen := map[string]bool{}
	for _, b := range first.st.bids {
		seen[b.Bidder] = true
	}
	if len(seen) < 2 {
		nd.Assume(false)
	}
	reps := 1
	if !nd.Symbolic() {
		reps = nd.Param("nativeReps", 48)
	}
	if nd.Param("permuteAll", 0) == 1 {
		nd.Option("permute-maps")
	} else {
		nd.Option("permute-maps-single")
	}
	for r := 0; r < reps; r++ {
		second := run()
		nd.Assert("C14.same-result", (first.err == nil) == (second.err == nil))
		nd.Assert("C14.same-ordered-events", env.SameEvents(first.e, first.m0, first.m1, second.e, second.m0, second.m1))
		nd.Assert("C14.same-number-of-transfers", len(first.calls) == len(second.calls))
		if len(first.calls) == len(second.calls) {
			for i := range first.calls {
				a, b := first.calls[i], second.calls[i]
				nd.Assert("C14.same-ordered-transfers", a.Kind == b.Kind && a.From == b.From && a.To == b.To && a.Denom == b.Denom && nd.And(a.Amount.Equal(b.Amount)))
			}
		}
		a1, a2 := getAuction(first.e, 0), getAuction(second.e, 0)
		nd.Assert("C14.same-status", a1.GetStatus() == a2.GetStatus())
		b1, b2 := bidsOf(first.e, 0), bidsOf(second.e, 0)
		nd.Assert("C14.same-bid-count", len(b1) == len(b2))
		if len(b1) == len(b2) {
			for i := range b1 {
				nd.Assert("C14.same-bid-flags", nd.Iff(b1[i].IsMatched, b2[i].IsMatched))
			}
		}
		for u := 0; u <= nd.Param("users", 2); u++ {
			nd.Assert("C14.same-balances", nd.And(first.e.Bal(addr(user(u)), denomSell).Equal(second.e.Bal(addr(user(u)), denomSell)),
				first.e.Bal(addr(user(u)), denomPay).Equal(second.e.Bal(addr(user(u)), denomPay))))
		}
		q1, q2 := queuesOf(first.e, 0), queuesOf(second.e, 0)
		nd.Assert("C14.same-instalments", len(q1) == len(q2))
		if len(q1) == len(q2) {
			for i := range q1 {
				nd.Assert("C14.same-instalment-amounts", q1[i].PayingCoin.Amount.Equal(q2[i].PayingCoin.Amount))
			}
		}
	}
	if first.err == nil {
		nd.Cover("settled-twice")
	}
	nd.Observe("transfers", int64(len(first.calls)))
}

// H_C14_Process: the same committed history on two processes, one of which has also executed a transaction
// whose writes were thrown away (a gas simulation, or a transaction that failed after the handler ran):
// whatever the keeper remembers in process memory must not leak into the committed result. The committed
// bid, the bid counter, the transfers, the balances and the events of the two processes must coincide.
func H_C14_Process() {
	now := nd.Time("now")
	price, amt := posDec("m.price"), posInt("m.amt")
	var seqs [2]uint64
	run := func(withDiscarded bool, slot int) c14Result {
		e := env.New(now)
		setParams(e, "p.")
		st := buildAuction(e, "a.", aSpec{id: 0, batch: true, status: types.AuctionStatusStarted, nEnd: 1, nUsers: 1, allowAll: true, nBids: 1})
		setAuctionSeq(e, 1)
		nd.Assume(st.base.EndTimes[0].After(now))
		bidder := user(1)
		nd.Assume(price.GTE(st.batchA.MinBidPrice))
		nd.Assume(amt.LTE(st.caps[1]))
		e.SetBal(addr(bidder), denomFee, getParams(e).PlaceBidFee.AmountOf(denomFee))
		nb := types.Bid{Price: price, Coin: sdk.NewCoin(denomSell, amt)}
		e.SetBal(addr(bidder), denomPay, payAmtZ(nb).Int())
		msg := types.NewMsgPlaceBid(0, bidder, types.BidTypeBatchMany, price, sdk.NewCoin(denomSell, amt))
		if withDiscarded {
			e.Branch()
			_, _ = e.Msg.PlaceBid(e.Ctx, msg)
			e.Discard()
		}
		e.ResetCalls()
		m0 := e.EventMark()
		_, err := e.Msg.PlaceBid(e.Ctx, msg)
		seqs[slot], _ = e.K.BidSeq.Get(e.Ctx, 0)
		return c14Result{e: e, err: err, calls: e.Calls(), st: st, m0: m0, m1: e.EventMark()}
	}
	first := run(false, 0)
	second := run(true, 1)
	nd.Assert("C14.process-same-result", (first.err == nil) == (second.err == nil))
	nd.Assert("C14.process-same-bid-counter", seqs[0] == seqs[1])
	b1, b2 := bidsOf(first.e, 0), bidsOf(second.e, 0)
	nd.Assert("C14.process-same-bid-count", len(b1) == len(b2))
	if len(b1) == len(b2) {
		for i := range b1 {
			nd.Assert("C14.process-same-bid-ids", b1[i].Id == b2[i].Id && b1[i].Bidder == b2[i].Bidder)
			nd.Assert("C14.process-same-bid-terms", nd.And(b1[i].Price.Equal(b2[i].Price), b1[i].Coin.Amount.Equal(b2[i].Coin.Amount)))
		}
	}
	nd.Assert("C14.process-same-ordered-events", env.SameEvents(first.e, first.m0, first.m1, second.e, second.m0, second.m1))
	nd.Assert("C14.process-same-number-of-transfers", len(first.calls) == len(second.calls))
	if len(first.calls) == len(second.calls) {
		for i := range first.calls {
			a, b := first.calls[i], second.calls[i]
			nd.Assert("C14.process-same-ordered-transfers", a.Kind == b.Kind && a.From == b.From && a.To == b.To && a.Denom == b.Denom && nd.And(a.Amount.Equal(b.Amount)))
		}
	}
	nd.Assert("C14.process-same-balances", nd.And(first.e.Bal(addr(user(1)), denomPay).Equal(second.e.Bal(addr(user(1)), denomPay)),
		first.e.Bal(addr(user(1)), denomFee).Equal(second.e.Bal(addr(user(1)), denomFee))))
	if first.err == nil {
		nd.Cover("bid-placed-on-both-processes")
	}
	nd.Observe("bidSeq", int64(seqs[0]))
}
