package props

import (
	"cosmossdk.io/collections"
	sdk "github.com/cosmos/cosmos-sdk/types"

	"github.com/tendermint/fundraising/x/fundraising/types"

	"verif/harness/env"
	"verif/harness/model"
	"verif/harness/nd"
)

func init() {
	register("H_Block2", H_Block2)
}

// bystanderSpec: an auction that has nothing due in the coming block.
func bystanderSpec(prefix string, id uint64) aSpec {
	// its own auctioneer (user 3), so that a payment that goes to the wrong auction's auctioneer is visible
	sp := aSpec{id: id, auctioneer: 3, nUsers: 1, allowAll: true, nEnd: 1}
	sp.status = allStatuses[nd.Pick(prefix+"status", 5)]
	switch sp.status {
	case types.AuctionStatusStarted:
		sp.batch = nd.Pick(prefix+"batch", 2) == 1
		sp.nBids = 1
	case types.AuctionStatusVesting:
		sp.nSched = 1
		sp.nBids = 1
	case types.AuctionStatusFinished:
		sp.nBids = 1
	}
	return sp
}

// knownLastLen names the listed finding that excuses a difference in the last matched-bid count (C15 only).
var knownLastLen = ""

type recSnap struct {
	auction types.AuctionI
	bids    []types.Bid
	queues  []types.VestingQueue
	allowed []types.AllowedBidder
	bidSeq  uint64
	hasSeq  bool
	lastLen int64
}

func snapRecords(e *env.Env, id uint64) recSnap {
	var r recSnap
	r.auction = getAuction(e, id)
	r.bids = bidsOf(e, id)
	r.queues = queuesOf(e, id)
	abs, err := e.K.GetAllowedBiddersByAuction(e.Ctx, id)
	if err != nil {
		panic(err)
	}
	r.allowed = abs
	seq, serr := e.K.BidSeq.Get(e.Ctx, id)
	r.bidSeq, r.hasSeq = seq, serr == nil
	r.lastLen, _ = e.K.GetLastMatchedBidsLen(e.Ctx, id)
	return r
}

// assertFrame: every record of the bystander auction is identical before and after.
func assertFrame(label string, before, after recSnap) {
	b, a := before.auction, after.auction
	nd.Assert(label+".auction-status-type", a.GetStatus() == b.GetStatus() && a.GetType() == b.GetType())
	assertTermsUnchanged(label+".terms", b, a, len(b.GetEndTimes()))
	nd.Assert(label+".end-times-same-length", len(a.GetEndTimes()) == len(b.GetEndTimes()))
	if fb, ok := b.(*types.FixedPriceAuction); ok {
		fa, ok2 := a.(*types.FixedPriceAuction)
		nd.Assert(label+".remainder", ok2 && fa.RemainingSellingCoin.Amount.Equal(fb.RemainingSellingCoin.Amount))
	}
	if bb, ok := b.(*types.BatchAuction); ok {
		ab, ok2 := a.(*types.BatchAuction)
		nd.Assert(label+".matched-price", ok2 && nd.Iff(ab.MatchedPrice.IsNil(), bb.MatchedPrice.IsNil()))
	}
	nd.Assert(label+".bid-count", len(a.GetEndTimes()) == len(b.GetEndTimes()) && len(after.bids) == len(before.bids))
	if len(after.bids) == len(before.bids) {
		for i := range before.bids {
			x, y := before.bids[i], after.bids[i]
			nd.Assert(label+".bid", nd.And(x.Id == y.Id, x.Bidder == y.Bidder, x.Type == y.Type, x.Coin.Denom == y.Coin.Denom,
				x.Coin.Amount.Equal(y.Coin.Amount), x.Price.Equal(y.Price), nd.Iff(x.IsMatched, y.IsMatched)))
		}
	}
	nd.Assert(label+".instalment-count", len(after.queues) == len(before.queues))
	if len(after.queues) == len(before.queues) {
		for i := range before.queues {
			x, y := before.queues[i], after.queues[i]
			nd.Assert(label+".instalment", nd.And(x.ReleaseTime.Equal(y.ReleaseTime), x.PayingCoin.Amount.Equal(y.PayingCoin.Amount), x.Released == y.Released))
		}
	}
	nd.Assert(label+".allow-list-count", len(after.allowed) == len(before.allowed))
	if len(after.allowed) == len(before.allowed) {
		for i := range before.allowed {
			x, y := before.allowed[i], after.allowed[i]
			nd.Assert(label+".allow-list", x.Bidder == y.Bidder && nd.And(x.MaxBidAmount.Equal(y.MaxBidAmount)))
		}
	}
	nd.Assert(label+".counters", before.hasSeq == after.hasSeq && before.bidSeq == after.bidSeq)
	if knownLastLen != "" {
		nd.Known(knownLastLen, before.lastLen != after.lastLen)
	}
	nd.Assert(label+".last-matched-count", before.lastLen == after.lastLen)
	if knownLastLen != "" {
		nd.ClearKnown()
	}
}

// notDue constrains the bystander so that the coming block has nothing to do for it.
func notDue(st *aState, now sdk.Context) {}

// H_Block2: a block over two auctions. A (id 0) is in any state; B (id 1) has
// nothing due. A single bank call of the block may be made to fail.
// C07: the block reports an injected failure whichever auction it belongs to,
// and succeeds otherwise; C19: B is untouched by A's processing.
func H_Block2() {
	now := nd.Time("now")
	e := env.New(now)
	setParams(e, "p.")
	mode := nd.Param("failMode", 0)
	var spA aSpec
	if mode == 0 {
		spA = pickSpec("a.", 0)
		spA.nUsers = 1
		if spA.nBids > 1 {
			spA.nBids = 1
		}
	} else {
		// only shapes in which the block makes bank calls for A
		spA = aSpec{id: 0, auctioneer: 0, nUsers: 1, allowAll: true, nEnd: 1}
		switch nd.Pick("a.shape", 3) {
		case 0:
			spA.status, spA.nBids, spA.nSched = types.AuctionStatusStarted, 1, nd.Pick("a.nSched", 2)
		case 1:
			spA.status, spA.batch, spA.nBids = types.AuctionStatusStarted, true, 1
			// any round: the final one, or an earlier one that extends or settles early (second settlement branch)
			spA.nEnd = nd.Pick("a.nEnd", nd.Param("maxEnd", 2)) + 1
			spA.hasMatchedLen = spA.nEnd >= 2
		case 2:
			spA.status, spA.nSched, spA.nBids = types.AuctionStatusVesting, 1, 0
		}
	}
	A := buildAuction(e, "a.", spA)
	spB := bystanderSpec("b.", 1)
	B := buildAuction(e, "b.", spB)
	setAuctionSeq(e, 2)
	// nothing due for B in this block
	switch spB.status {
	case types.AuctionStatusStandBy:
		nd.Assume(B.base.StartTime.After(now))
	case types.AuctionStatusStarted:
		nd.Assume(B.base.EndTimes[0].After(now))
	case types.AuctionStatusVesting:
		nd.Assume(B.queues[0].ReleaseTime.After(now))
	}
	order := 0 // 0 = no failure injected
	if mode == 1 {
		order = nd.Pick("failAt", nd.Param("maxFail", 5)) + 1
	}
	// failMode=2: a listener vetoes the settlement of A (BeforeSellingCoinsAllocated); B comes later in the block
	var veto *model.Listener
	if mode == 2 {
		veto = &model.Listener{Name: "veto", FailOn: "BeforeSellingCoinsAllocated"}
		e.SetHooks(types.NewMultiFundraisingHooks(&model.Listener{Name: "agree"}, veto))
	}
	e.ResetCalls()
	e.FailAt(order)
	preB := snapRecords(e, 1)
	pre := snapshot(e, trackedAccounts(0, 1))

	var err error
	panicked := nd.Try(func() { err = e.K.BeginBlocker(e.Ctx) })
	nd.Assert("C07.block2-does-not-panic", !panicked)
	if panicked {
		return
	}
	if mode == 2 {
		vetoed := veto.Count("BeforeSellingCoinsAllocated") > 0
		nd.Assert("C17.settlement-veto-is-reported-whichever-auction", !vetoed || err != nil)
		nd.Assert("C17.settlement-veto-called-once", veto.Count("BeforeSellingCoinsAllocated") <= 1)
		if vetoed {
			nd.Cover("settlement-vetoed")
		}
		return
	}
	injected := e.FailureInjected()
	nd.Assert("C07.failure-is-reported", !injected || err != nil)
	nd.Assert("C07.block2-returns-nil-without-failure", injected || err == nil)
	nd.Observe("err", err)
	nd.Observe("injected", injected)
	if injected {
		nd.Cover("failure-injected")
		return
	}
	if err != nil {
		return
	}
	nd.Cover("two-auctions-processed")
	postB := snapRecords(e, 1)
	post := snapshot(e, trackedAccounts(0, 1))
	assertFrame("C19.bystander", preB, postB)
	nd.Assert("C19.bystander-escrows-untouched", nd.And(
		post.get(B.sellingAddr(), denomSell).EQ(pre.get(B.sellingAddr(), denomSell)),
		post.get(B.payingAddr(), denomPay).EQ(pre.get(B.payingAddr(), denomPay)),
		post.get(B.vestingAddr(), denomPay).EQ(pre.get(B.vestingAddr(), denomPay))))
	// C09: instalments are paid from the auction they belong to, to its own auctioneer: the bystander's auctioneer
	// (a different account) receives nothing in a block in which nothing of B is due
	bAuct := addr(B.base.Auctioneer)
	nd.Assert("C09.nothing-paid-to-an-auctioneer-with-nothing-due", post.get(bAuct, denomPay).EQ(pre.get(bAuct, denomPay)))
	nd.Assert("C09.bystander-vesting-escrow-untouched", post.get(B.vestingAddr(), denomPay).EQ(pre.get(B.vestingAddr(), denomPay)))
	// and A's escrows still obey C01 with B present
	os, op, ov := owed(e, 0)
	settledNow := spA.status != types.AuctionStatusVesting && spA.status != types.AuctionStatusFinished &&
		(getAuction(e, 0).GetStatus() == types.AuctionStatusVesting || getAuction(e, 0).GetStatus() == types.AuctionStatusFinished)
	donS, donP := nd.ZInt(A.donS), nd.ZInt(A.donP)
	if settledNow {
		donS, donP = nd.ZOf(0), nd.ZOf(0)
	}
	nd.Assert("C01.block2-escrows-exact", nd.And(
		post.get(A.sellingAddr(), denomSell).EQ(os.Add(donS)),
		post.get(A.payingAddr(), denomPay).EQ(op.Add(donP)),
		post.get(A.vestingAddr(), denomPay).EQ(ov.Add(nd.ZInt(A.donV)))))
	_ = collections.Join[uint64, uint64]
}
