package props

import (
	"github.com/tendermint/fundraising/x/fundraising/keeper"

	"verif/harness/nd"
)

func init() {
	register("H_C10_Switch", H_C10_Switch)
}

// switchAtStart is read during this package's initialisation, i.e. after the
// initialisers of every package the process links have run.
var switchAtStart = keeper.EnableAddAllowedBidder

// H_C10_Switch: in a default build (what cmd/fundraisingd links, no testing
// link flag) the process-wide switch that lets MsgAddAllowedBidder through is
// false once all package initialisers have run.
func H_C10_Switch() {
	v := nd.InitValueBool("github.com/tendermint/fundraising/cmd/fundraisingd",
		"github.com/tendermint/fundraising/x/fundraising/keeper.EnableAddAllowedBidder", switchAtStart)
	nd.Assert("C10.switch-off-in-default-build", !v)
	nd.Observe("switch", v)
	nd.Cover("initialisers-executed")
}
