package props

import (
	"time"

	"cosmossdk.io/collections"
	"cosmossdk.io/math"
	sdk "github.com/cosmos/cosmos-sdk/types"

	"github.com/tendermint/fundraising/x/fundraising/types"

	"verif/harness/env"
	"verif/harness/model"
	"verif/harness/nd"
)

// Concrete pools (DESIGN §4): addresses, denominations and ids are concrete;
// every amount, price, weight and instant is symbolic.
var userAddrs = [...]string{
	"cosmos1zqg3yyc5z5tpwxqergd3c8g7ruszzg3r3gv4w0",
	"cosmos1yqsjygeyy5nzw2pf9g4jctfw9ucrzv3nwpy9dt",
	"cosmos1xqcnyve5x5mrwwpe8ganc0f78aqyzsjr47xe0g",
	"cosmos1gpq5ys6yg4rywjzfff95cn2wfag9z5jnzsarn2",
}

const (
	denomSell = "denom1"
	denomPay  = "denom2"
	denomFee  = "stake"
	denomOdd  = "denom3"
)

func user(i int) string { return userAddrs[i] }

// userUpper is the all-upper-case bech32 spelling of the same account (accepted
// by the SDK's bech32 decoder and therefore by ValidateBasic and the handlers).
var userAddrsUpper = [...]string{
	"COSMOS1ZQG3YYC5Z5TPWXQERGD3C8G7RUSZZG3R3GV4W0",
	"COSMOS1YQSJYGEYY5NZW2PF9G4JCTFW9UCRZV3NWPY9DT",
	"COSMOS1XQCNYVE5X5MRWWPE8GANC0F78AQYZSJR47XE0G",
	"COSMOS1GPQ5YS6YG4RYWJZFFF95CN2WFAG9Z5JNZSARN2",
}

func userUpper(i int) string { return userAddrsUpper[i] }

func addr(s string) sdk.AccAddress {
	a, err := sdk.AccAddressFromBech32(s)
	if err != nil {
		panic(err)
	}
	return a
}

func poolAddr() sdk.AccAddress { return addr(model.CommunityPool) }

// amount bit width of symbolic amounts and prices in the current tier
func amtBits() int { return nd.Param("bits", 100) }

// hugeFlags collects, per path, "this symbolic quantity is >= 2^128" for every amount
// and price created through the helpers below (used by the extreme-amount tier of C07).
var hugeFlags []bool

func noteMagnitude(isHuge bool) {
	if amtBits() > 128 {
		hugeFlags = append(hugeFlags, isHuge)
	}
}

// anyHuge: some amount or raw price of the state is >= 2^128.
func anyHuge() bool { return nd.Or(hugeFlags...) }

func posInt(name string) math.Int {
	v := nd.IntN(name, amtBits())
	nd.Assume(v.IsPositive())
	noteMagnitude(nd.ZInt(v).GE(nd.ZStr("340282366920938463463374607431768211456")))
	return v
}

func nonnegInt(name string) math.Int {
	v := nd.IntN(name, amtBits())
	noteMagnitude(nd.ZInt(v).GE(nd.ZStr("340282366920938463463374607431768211456")))
	return v
}

func posDec(name string) math.LegacyDec {
	v := nd.DecN(name, amtBits())
	nd.Assume(v.IsPositive())
	noteMagnitude(nd.ZDec(v).GE(nd.ZStr("340282366920938463463374607431768211456")))
	return v
}

// setParams stores module parameters with symbolic fees (possibly zero = empty fee set).
func setParams(e *env.Env, prefix string) types.Params {
	cf := nonnegInt(prefix + "createFee")
	bf := nonnegInt(prefix + "bidFee")
	p := types.Params{
		AuctionCreationFee: sdk.NewCoins(sdk.NewCoin(denomFee, cf)),
		PlaceBidFee:        sdk.NewCoins(sdk.NewCoin(denomFee, bf)),
		ExtendedPeriod:     uint32(nd.IntRange(prefix+"extPeriod", 0, 3650)),
	}
	if err := e.K.Params.Set(e.Ctx, p); err != nil {
		panic(err)
	}
	return p
}

type auctionSpec struct {
	id         uint64
	batch      bool
	status     types.AuctionStatus
	auctioneer string
	nSchedules int
	nEndTimes  int
}

// newBaseAuction builds a symbolic BaseAuction satisfying RI conjuncts R1-R4.
func newBaseAuction(prefix string, sp auctionSpec) *types.BaseAuction {
	typ := types.AuctionTypeFixedPrice
	if sp.batch {
		typ = types.AuctionTypeBatch
	}
	start := nd.Time(prefix + "start")
	endTimes := make([]time.Time, sp.nEndTimes)
	for i := range endTimes {
		endTimes[i] = nd.Time(prefix + "end" + itoa(i))
		if i == 0 {
			nd.Assume(endTimes[0].After(start))
		} else {
			nd.Assume(!endTimes[i].Before(endTimes[i-1]))
		}
	}
	var vs []types.VestingSchedule
	for i := 0; i < sp.nSchedules; i++ {
		vs = append(vs, types.VestingSchedule{
			ReleaseTime: nd.Time(prefix + "release" + itoa(i)),
			Weight:      nd.DecN(prefix+"weight"+itoa(i), 61),
		})
	}
	// R4: the schedule is one the module itself accepts for the first end time
	nd.Assume(types.ValidateVestingSchedules(vs, endTimes[0]) == nil)
	return types.NewBaseAuction(
		sp.id, typ, sp.auctioneer,
		types.SellingReserveAddress(sp.id).String(),
		types.PayingReserveAddress(sp.id).String(),
		posDec(prefix+"startPrice"),
		sdk.NewCoin(denomSell, posInt(prefix+"offered")),
		denomPay,
		types.VestingReserveAddress(sp.id).String(),
		vs, start, endTimes, sp.status,
	)
}

func itoa(i int) string {
	if i < 10 {
		return string(rune('0' + i))
	}
	return itoa(i/10) + string(rune('0'+i%10))
}

func setAuctionSeq(e *env.Env, n uint64) {
	if err := e.K.AuctionSeq.Set(e.Ctx, n); err != nil {
		panic(err)
	}
}

func setBid(e *env.Env, b types.Bid) {
	if err := e.K.Bid.Set(e.Ctx, collections.Join(b.AuctionId, b.Id), b); err != nil {
		panic(err)
	}
}

func setBidSeq(e *env.Env, auctionId, n uint64) {
	if err := e.K.BidSeq.Set(e.Ctx, auctionId, n); err != nil {
		panic(err)
	}
}

func setAllowed(e *env.Env, auctionId uint64, bidder string, cap math.Int) {
	ab := types.AllowedBidder{AuctionId: auctionId, Bidder: bidder, MaxBidAmount: cap}
	if err := e.K.AllowedBidder.Set(e.Ctx, collections.Join(auctionId, addr(bidder)), ab); err != nil {
		panic(err)
	}
}

func setAuction(e *env.Env, a types.AuctionI) {
	if err := e.K.Auction.Set(e.Ctx, a.GetId(), a); err != nil {
		panic(err)
	}
}

func getAuction(e *env.Env, id uint64) types.AuctionI {
	a, err := e.K.Auction.Get(e.Ctx, id)
	if err != nil {
		panic(err)
	}
	return a
}

// payAmtZ / sellAmtZ: the specification-side conversions (DESIGN Appendix F).
func payAmtZ(b types.Bid) nd.Z {
	if b.Coin.Denom == denomPay {
		return nd.ZInt(b.Coin.Amount)
	}
	return nd.ZInt(b.Coin.Amount).Mul(nd.ZDec(b.Price)).CeilDiv(zS())
}

func sellAmtZ(b types.Bid) nd.Z {
	if b.Coin.Denom == denomPay {
		return nd.ZInt(b.Coin.Amount).Mul(zS()).FloorDiv(nd.ZDec(b.Price))
	}
	return nd.ZInt(b.Coin.Amount)
}

func joinKey(a, b uint64) collections.Pair[uint64, uint64] { return collections.Join(a, b) }

func indexOfUser(a string) int {
	for i, u := range userAddrs {
		if u == a {
			return i
		}
	}
	panic("not a pool address")
}

func sdkAddr(s string) (sdk.AccAddress, error) { return sdk.AccAddressFromBech32(s) }

// tid is the id of the target auction of the single-auction harnesses. It is 1, not 0: id 0 is the zero
// value of every id field, so a record that lost its auction id would go unnoticed with a target of 0.
func tid() uint64 { return uint64(nd.Param("tid", 1)) }
