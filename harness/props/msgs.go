package props

import (
	"time"

	"cosmossdk.io/collections"
	"cosmossdk.io/math"
	sdk "github.com/cosmos/cosmos-sdk/types"

	"github.com/tendermint/fundraising/x/fundraising/keeper"
	"github.com/tendermint/fundraising/x/fundraising/types"

	"verif/harness/env"
	"verif/harness/nd"
)

func init() {
	register("H_Create", H_Create)
	register("H_Cancel", H_Cancel)
	register("H_PlaceBid", H_PlaceBid)
	register("H_ModifyBid", H_ModifyBid)
	register("H_Allowed", H_Allowed)
	register("H_UpdateParams", H_UpdateParams)
}

const badAddr = "cosmos1notanaddress"

// anyInt is an unconstrained (possibly negative or zero) amount within the tier's width.
func anyInt(name string) math.Int { return nd.IntS(name, amtBits()) }

func anyDec(name string) math.LegacyDec { return nd.DecS(name, amtBits()) }

// H_Create: MsgCreateFixedPriceAuction / MsgCreateBatchAuction with every
// field symbolic (including malformed ones) against the documented
// preconditions (DESIGN Appendix F), and the effects of an accepted creation.
func H_Create() {
	now := nd.Time("now")
	e := env.New(now)
	params := setParams(e, "p.")
	setAuctionSeq(e, 1)
	batch := nd.Pick("batch", 2) == 1
	auctioneer := user(0)
	addrOK := nd.Pick("m.addrOK", 2) == 1
	if !addrOK {
		auctioneer = badAddr
	}
	sellDenom, payDenom := denomSell, denomPay
	denomCase := nd.Pick("m.denoms", 4)
	switch denomCase {
	case 1:
		payDenom = denomSell // same denom
	case 2:
		sellDenom = "x" // invalid selling denom
	case 3:
		payDenom = "y" // invalid paying denom
	}
	startPrice := anyDec("m.startPrice")
	amount := anyInt("m.amount")
	start, end := nd.Time("m.start"), nd.Time("m.end")
	nSched := nd.Pick("m.nSched", nd.Param("maxSched", 2)+1)
	var vs []types.VestingSchedule
	for i := 0; i < nSched; i++ {
		vs = append(vs, types.VestingSchedule{ReleaseTime: nd.Time("m.release" + itoa(i)), Weight: anyDec("m.weight" + itoa(i))})
	}
	balFee, balSell := nonnegInt("bal.fee"), nonnegInt("bal.sell")
	if addrOK {
		e.SetBal(addr(auctioneer), denomFee, balFee)
		e.SetBal(addr(auctioneer), denomSell, balSell)
	}
	donS := nonnegInt("donS")
	e.SetBal(types.SellingReserveAddress(1), denomSell, donS)
	pre := snapshot(e, trackedAccounts(1))
	coin := sdk.Coin{Denom: sellDenom, Amount: amount}

	var vErr, err error
	var minBid, rate math.LegacyDec
	var maxRound uint32
	if batch {
		minBid, rate = anyDec("m.minBid"), anyDec("m.rate")
		maxRound = nd.Uint32("m.maxRound")
		msg := types.NewMsgCreateBatchAuction(auctioneer, startPrice, minBid, coin, payDenom, vs, maxRound, rate, start, end)
		vErr = msg.ValidateBasic()
		if vErr == nil {
			_, err = e.Msg.CreateBatchAuction(e.Ctx, msg)
		}
	} else {
		msg := types.NewMsgCreateFixedPriceAuction(auctioneer, startPrice, coin, payDenom, vs, start, end)
		vErr = msg.ValidateBasic()
		if vErr == nil {
			_, err = e.Msg.CreateFixedPriceAuction(e.Ctx, msg)
		}
	}
	accepted := vErr == nil && err == nil

	// ---- reference predicate (documentation side) ----
	schedOK := true
	sumW := nd.ZOf(0)
	for i := 0; i < nSched; i++ {
		after := vs[i].ReleaseTime.After(end)
		if i > 0 {
			after = nd.And(after, vs[i].ReleaseTime.After(vs[i-1].ReleaseTime))
		}
		schedOK = nd.And(schedOK, vs[i].Weight.IsPositive(), after)
		sumW = sumW.Add(nd.ZDec(vs[i].Weight))
	}
	if nSched > 0 {
		schedOK = nd.And(schedOK, sumW.EQ(zS()))
	}
	fee := nd.ZInt(params.AuctionCreationFee.AmountOf(denomFee))
	ref := nd.And(addrOK, denomCase == 0, startPrice.IsPositive(), amount.IsPositive(),
		end.After(start), !now.After(end), schedOK,
		fee.LE(nd.ZInt(balFee)), nd.ZInt(amount).LE(nd.ZInt(balSell)))
	if batch {
		ref = nd.And(ref, minBid.IsPositive(), rate.IsPositive(), maxRound <= types.MaxExtendedRound)
	}
	nd.Assert("C18.create-accepted-iff-documented-preconditions", nd.Iff(accepted, ref))
	nd.Observe("accepted", accepted)

	post := snapshot(e, trackedAccounts(1))
	nd.Assert("C02.create-zero-sum", nd.And(post.total(denomSell).EQ(pre.total(denomSell)), post.total(denomFee).EQ(pre.total(denomFee)), post.total(denomPay).EQ(pre.total(denomPay))))
	if !accepted {
		nd.Cover("create-rejected")
		return
	}
	nd.Cover("create-accepted")
	a, gerr := e.K.Auction.Get(e.Ctx, 1)
	nd.Assert("C19.create-uses-next-id", gerr == nil)
	if gerr != nil {
		return
	}
	seq, _ := e.K.AuctionSeq.Peek(e.Ctx)
	nd.Assert("C19.create-increments-sequence", seq == 2)
	wantStatus := types.AuctionStatusStandBy
	opened := !start.After(now)
	nd.Assert("C08.create-open-iff-start-passed", nd.Iff(a.GetStatus() == types.AuctionStatusStarted, opened))
	nd.Assert("C08.create-waiting-otherwise", nd.Iff(a.GetStatus() == wantStatus, !opened))
	nd.Assert("C18.create-record-terms", nd.And(a.GetId() == 1, a.GetAuctioneer().Equals(addr(auctioneer)), a.GetStartPrice().Equal(startPrice),
		a.GetSellingCoin().Denom == sellDenom, a.GetSellingCoin().Amount.Equal(amount), a.GetPayingCoinDenom() == payDenom,
		a.GetStartTime().Equal(start), len(a.GetEndTimes()) == 1, a.GetEndTimes()[0].Equal(end), len(a.GetVestingSchedules()) == nSched))
	nd.Assert("C19.create-escrow-addresses", a.GetSellingReserveAddress().Equals(types.SellingReserveAddress(1)) &&
		a.GetPayingReserveAddress().Equals(types.PayingReserveAddress(1)) && a.GetVestingReserveAddress().Equals(types.VestingReserveAddress(1)))
	if batch {
		ba, ok := a.(*types.BatchAuction)
		nd.Assert("C18.create-batch-type", ok && a.GetType() == types.AuctionTypeBatch)
		if ok {
			nd.Assert("C18.create-batch-terms", nd.And(ba.MinBidPrice.Equal(minBid), ba.ExtendedRoundRate.Equal(rate), ba.MaxExtendedRound == maxRound, ba.MatchedPrice.IsZero()))
			nd.Assert("C13.create-round-limit", ba.MaxExtendedRound <= 30)
		}
	} else {
		fa, ok := a.(*types.FixedPriceAuction)
		nd.Assert("C18.create-fixed-type", ok && a.GetType() == types.AuctionTypeFixedPrice)
		if ok {
			nd.Assert("C06.create-remainder-is-offered", fa.RemainingSellingCoin.Denom == sellDenom && fa.RemainingSellingCoin.Amount.Equal(amount))
		}
	}
	// ledger: the auctioneer pays exactly fee + offered amount; escrow and pool receive them
	au := addr(auctioneer)
	nd.Assert("C01.create-selling-escrow-exact", post.get(types.SellingReserveAddress(1), denomSell).EQ(nd.ZInt(amount).Add(nd.ZInt(donS))))
	nd.Assert("C02.create-auctioneer-pays-fee-and-offer", nd.And(
		post.get(au, denomSell).EQ(pre.get(au, denomSell).Sub(nd.ZInt(amount))),
		post.get(au, denomFee).EQ(pre.get(au, denomFee).Sub(fee)),
		post.get(poolAddr(), denomFee).EQ(pre.get(poolAddr(), denomFee).Add(fee))))
	// RI base case: a freshly created auction satisfies RI
	assertRI(e, 1, "RI.create")
}

// H_Cancel: MsgCancelAuction for every signer, status, type and moment.
func H_Cancel() {
	now := nd.Time("now")
	e := env.New(now)
	setParams(e, "p.")
	sp := pickSpec("a.", tid())
	st := buildAuction(e, "a.", sp)
	setAuctionSeq(e, tid()+1)
	// a message arrives after the block hook ran with the same block time: a waiting auction has not reached its start
	if sp.status == types.AuctionStatusStandBy {
		nd.Assume(st.base.StartTime.After(now))
	}
	signer := user(0)
	signerCase := nd.Pick("m.signer", 4)
	switch signerCase {
	case 1:
		signer = user(1)
	case 2:
		signer = badAddr
	case 3:
		signer = userUpper(0) // the auctioneer's account, spelled in upper case
	}
	id := tid()
	exists := nd.Pick("m.exists", 2) == 1
	if !exists {
		id = 7
	}
	pre := snapshot(e, trackedAccounts(tid()))
	preA := st.auction()
	msg := types.NewMsgCancelAuction(signer, id)
	vErr := msg.ValidateBasic()
	var err error
	if vErr == nil {
		_, err = e.Msg.CancelAuction(e.Ctx, msg)
	}
	accepted := vErr == nil && err == nil
	ref := exists && (signerCase == 0 || signerCase == 3) && sp.status == types.AuctionStatusStandBy
	// C12 states "only": acceptance implies auctioneer and waiting (exactness of acceptance is C18's clause)
	nd.Assert("C12.cancel-accepted-only-by-auctioneer-while-waiting", !accepted || ref)
	nd.Assert("C18.cancel-accepted-iff-documented-preconditions", accepted == ref)
	post := snapshot(e, trackedAccounts(tid()))
	a := getAuction(e, tid())
	if accepted {
		au := addr(st.base.Auctioneer)
		nd.Assert("C12.cancel-refunds-whole-escrow", post.get(au, denomSell).EQ(pre.get(au, denomSell).Add(pre.get(st.sellingAddr(), denomSell))))
		nd.Assert("C12.cancel-empties-escrow", post.get(st.sellingAddr(), denomSell).IsZero())
		nd.Assert("C12.cancel-status-cancelled", a.GetStatus() == types.AuctionStatusCancelled)
		if fa, ok := a.(*types.FixedPriceAuction); ok {
			nd.Assert("C12.cancel-zeroes-remainder", fa.RemainingSellingCoin.Amount.IsZero())
		}
		// cancelled: nothing is owed; cancelling sweeps the whole selling escrow (third-party coins included)
		nd.Assert("C01.cancel-selling-escrow-empty", post.get(st.sellingAddr(), denomSell).IsZero())
		nd.Assert("C01.cancel-escrows", nd.And(post.get(st.payingAddr(), denomPay).EQ(pre.get(st.payingAddr(), denomPay)), post.get(st.vestingAddr(), denomPay).EQ(pre.get(st.vestingAddr(), denomPay))))
		assertTermsUnchanged("C19.cancel-terms", preA, a, sp.nEnd)
		nd.Cover("cancel-accepted")
	} else {
		nd.Assert("C08.cancel-rejected-status-unchanged", a.GetStatus() == sp.status)
		nd.Assert("C12.cancel-rejected-no-transfer", post.get(st.sellingAddr(), denomSell).EQ(pre.get(st.sellingAddr(), denomSell)))
		nd.Cover("cancel-rejected")
	}
	nd.Assert("C02.cancel-zero-sum", post.total(denomSell).EQ(pre.total(denomSell)))
	nd.Observe("accepted", accepted)
	assertRI(e, tid(), "RI.cancel")
}

// H_PlaceBid: MsgPlaceBid of every bid type against an auction of every type
// and status; accept-iff against the documented preconditions and the
// expected ledger (C18, C01, C02, C08, C10, C19).
func H_PlaceBid() {
	now := nd.Time("now")
	e := env.New(now)
	params := setParams(e, "p.")
	sp := pickSpec("a.", tid())
	sp.allowAll = false
	sp.nUsers = 1
	if sp.nBids > 1 {
		sp.nBids = 1
	}
	st := buildAuction(e, "a.", sp)
	setAuctionSeq(e, tid()+1)
	if sp.status == types.AuctionStatusStandBy {
		nd.Assume(st.base.StartTime.After(now))
	}
	bidder := user(1)
	msgBidder := bidder
	if nd.Pick("m.upper", 2) == 1 {
		msgBidder = userUpper(1) // same account, upper-case spelling
	}
	bidType := types.BidType(nd.Pick("m.type", 4)) // 0 = nil (invalid), 1 fixed, 2 worth, 3 many
	msgDenom := denomPay
	denomCase := nd.Pick("m.denom", 3)
	switch denomCase {
	case 1:
		msgDenom = denomSell
	case 2:
		msgDenom = denomOdd
	}
	price := anyDec("m.price")
	amt := anyInt("m.amt")
	exists := nd.Pick("m.exists", 2) == 1
	id := tid()
	if !exists {
		id = 7
	}
	balFee, balPay := nonnegInt("bal.fee"), nonnegInt("bal.pay")
	e.SetBal(addr(bidder), denomFee, balFee)
	e.SetBal(addr(bidder), denomPay, balPay)
	pre := snapshot(e, trackedAccounts(tid()))
	preA := st.auction()
	preBids := bidsOf(e, tid())

	msg := types.NewMsgPlaceBid(id, msgBidder, bidType, price, sdk.Coin{Denom: msgDenom, Amount: amt})
	vErr := msg.ValidateBasic()
	var err error
	if vErr == nil {
		_, err = e.Msg.PlaceBid(e.Ctx, msg)
	}
	accepted := vErr == nil && err == nil

	// ---- reference ----
	nb := types.Bid{Type: bidType, Price: price, Coin: msg.Coin}
	wellFormed := nd.And(price.IsPositive(), amt.IsPositive(), bidType != types.BidTypeNil)
	open := exists && sp.status == types.AuctionStatusStarted
	listed := st.allowed[1]
	fee := nd.ZInt(params.PlaceBidFee.AmountOf(denomFee))
	ref := nd.And(wellFormed, open, listed, fee.LE(nd.ZInt(balFee)))
	wantPay, wantSell := nd.ZOf(0), nd.ZOf(0)
	if open && listed && bidType != types.BidTypeNil && denomCase != 2 {
		// conversions are only meaningful (and division only defined) for well-formed terms
		if nd.And(price.IsPositive(), amt.IsPositive()) {
			wantPay, wantSell = payAmtZ(nb), sellAmtZ(nb)
		}
		capZ := nd.ZInt(st.caps[1])
		switch bidType {
		case types.BidTypeFixedPrice:
			mine := nd.ZOf(0)
			for _, b := range st.bids {
				if b.Bidder == bidder {
					mine = mine.Add(sellAmtZ(b))
				}
			}
			ref = nd.And(ref, !sp.batch, price.Equal(st.base.StartPrice),
				wantSell.LE(nd.ZInt(st.offered()).Sub(st.sold)), mine.Add(wantSell).LE(capZ), wantPay.LE(nd.ZInt(balPay)))
		case types.BidTypeBatchWorth:
			ref = nd.And(ref, sp.batch, denomCase == 0, wantSell.LE(capZ), wantPay.LE(nd.ZInt(balPay)))
			if sp.batch {
				ref = nd.And(ref, price.GTE(st.batchA.MinBidPrice))
			}
		case types.BidTypeBatchMany:
			ref = nd.And(ref, sp.batch, denomCase == 1, wantSell.LE(capZ), wantPay.LE(nd.ZInt(balPay)))
			if sp.batch {
				ref = nd.And(ref, price.GTE(st.batchA.MinBidPrice))
			}
		}
	} else {
		ref = nd.And(ref, denomCase != 2)
	}
	nd.Assert("C18.bid-accepted-iff-documented-preconditions", nd.Iff(accepted, ref))
	nd.Assert("C08.bid-accepted-only-while-open", !accepted || sp.status == types.AuctionStatusStarted)
	nd.Assert("C10.bid-accepted-only-if-allow-listed", !accepted || listed)
	nd.Observe("accepted", accepted)

	post := snapshot(e, trackedAccounts(tid()))
	nd.Assert("C02.bid-zero-sum", nd.And(post.total(denomPay).EQ(pre.total(denomPay)), post.total(denomFee).EQ(pre.total(denomFee)), post.total(denomSell).EQ(pre.total(denomSell))))
	postBids := bidsOf(e, tid())
	for i, b := range preBids {
		// earlier bids are never removed or altered
		ok := i < len(postBids)
		nd.Assert("C11.bid-earlier-bids-kept", ok)
		if ok {
			nd.Assert("C11.bid-earlier-bids-unchanged", nd.And(postBids[i].Id == b.Id, postBids[i].Bidder == b.Bidder, postBids[i].Coin.Amount.Equal(b.Coin.Amount), postBids[i].Price.Equal(b.Price)))
		}
	}
	if !accepted {
		nd.Cover("bid-rejected")
		return
	}
	nd.Cover("bid-accepted")
	a := getAuction(e, tid())
	assertTermsUnchanged("C19.bid-terms", preA, a, sp.nEnd)
	nd.Assert("C08.bid-status-unchanged", a.GetStatus() == sp.status)
	nd.Assert("C19.bid-gets-next-id", len(postBids) == len(preBids)+1)
	nd.Assert("C19.bid-written-under-no-other-auction", len(bidsOf(e, tid()-1)) == 0 && len(bidsOf(e, tid()+1)) == 0)
	if len(postBids) == len(preBids)+1 {
		rec := postBids[len(postBids)-1]
		nd.Assert("C19.bid-id-increasing", rec.Id == uint64(len(preBids)+1) && rec.AuctionId == tid())
		// RI R6: the stored bidder string is the canonical spelling of the account, whatever spelling the message used
		nd.Assert("C10.bid-bidder-stored-canonically", rec.Bidder == bidder)
		nd.Assert("C18.bid-record-terms", nd.And(addr(rec.Bidder).Equals(addr(bidder)), rec.Type == bidType, rec.Price.Equal(price), rec.Coin.Denom == msgDenom, rec.Coin.Amount.Equal(amt)))
		nd.Assert("C16.bid-flag-at-placement", rec.IsMatched == (bidType == types.BidTypeFixedPrice))
	}
	bd := addr(bidder)
	// C04: what settlement later treats as "the reservation" of this bid (ceil of price x quantity for a quantity
	// bid, the amount itself for a worth bid) is what really left the bidder's account and entered the escrow
	nd.Assert("C04.reservation-taken-is-the-reservation-settlement-accounts-for", nd.And(
		post.get(bd, denomPay).EQ(pre.get(bd, denomPay).Sub(wantPay)),
		post.get(st.payingAddr(), denomPay).EQ(pre.get(st.payingAddr(), denomPay).Add(wantPay))))
	nd.Assert("C02.bidder-pays-fee-and-reservation", nd.And(
		post.get(bd, denomFee).EQ(pre.get(bd, denomFee).Sub(fee)),
		post.get(bd, denomPay).EQ(pre.get(bd, denomPay).Sub(wantPay)),
		post.get(poolAddr(), denomFee).EQ(pre.get(poolAddr(), denomFee).Add(fee))))
	nd.Assert("C01.bid-paying-escrow-grows-by-reservation", post.get(st.payingAddr(), denomPay).EQ(pre.get(st.payingAddr(), denomPay).Add(wantPay)))
	os, op, ov := owed(e, tid())
	nd.Assert("C01.bid-escrows-exact", nd.And(
		post.get(st.sellingAddr(), denomSell).EQ(os.Add(nd.ZInt(st.donS))),
		post.get(st.payingAddr(), denomPay).EQ(op.Add(nd.ZInt(st.donP))),
		post.get(st.vestingAddr(), denomPay).EQ(ov.Add(nd.ZInt(st.donV)))))
	if fa, ok := a.(*types.FixedPriceAuction); ok {
		nd.Assert("C06.bid-remainder-exact", nd.ZInt(fa.RemainingSellingCoin.Amount).EQ(nd.ZInt(st.offered()).Sub(st.sold).Sub(wantSell)))
	}
	assertRI(e, tid(), "RI.bid")
}

// H_ModifyBid: MsgModifyBid for every signer, bid, auction type/status and new terms.
func H_ModifyBid() {
	now := nd.Time("now")
	e := env.New(now)
	setParams(e, "p.")
	sp := pickSpec("a.", tid())
	sp.nUsers = 2
	sp.allowAll = true
	st := buildAuction(e, "a.", sp)
	setAuctionSeq(e, tid()+1)
	if sp.status == types.AuctionStatusStandBy {
		nd.Assume(st.base.StartTime.After(now))
	}
	// which bid: an existing one (if any) or an absent id
	bidId := uint64(9)
	target := -1
	if len(st.bids) > 0 {
		k := nd.Pick("m.bid", len(st.bids)+1)
		if k < len(st.bids) {
			target = k
			bidId = st.bids[k].Id
		}
	}
	signer := user(nd.Pick("m.signer", 2) + 1)
	msgSigner := signer
	if nd.Pick("m.upper", 2) == 1 {
		msgSigner = userUpper(indexOfUser(signer))
	}
	msgDenom := denomPay
	if nd.Pick("m.denom", 2) == 1 {
		msgDenom = denomSell
	}
	price := anyDec("m.price")
	amt := anyInt("m.amt")
	balPay := nonnegInt("bal.pay")
	e.SetBal(addr(signer), denomPay, balPay)
	pre := snapshot(e, trackedAccounts(tid()))
	preA := st.auction()
	preBids := bidsOf(e, tid())

	msg := types.NewMsgModifyBid(tid(), msgSigner, bidId, price, sdk.Coin{Denom: msgDenom, Amount: amt})
	vErr := msg.ValidateBasic()
	var err error
	if vErr == nil {
		_, err = e.Msg.ModifyBid(e.Ctx, msg)
	}
	accepted := vErr == nil && err == nil

	ref := nd.And(price.IsPositive(), amt.IsPositive(), sp.status == types.AuctionStatusStarted, sp.batch, target >= 0)
	delta := nd.ZOf(0)
	if sp.batch && sp.status == types.AuctionStatusStarted && target >= 0 {
		old := st.bids[target]
		nb := old
		nb.Price, nb.Coin = price, msg.Coin
		if nd.And(price.IsPositive(), amt.IsPositive()) && old.Coin.Denom == msgDenom {
			delta = payAmtZ(nb).Sub(payAmtZ(old))
		}
		ref = nd.And(ref, old.Bidder == signer, price.GTE(st.batchA.MinBidPrice), old.Coin.Denom == msgDenom,
			price.GTE(old.Price), amt.GTE(old.Coin.Amount), nd.Or(price.GT(old.Price), amt.GT(old.Coin.Amount)),
			delta.LE(nd.ZInt(balPay)))
	}
	nd.Assert("C11.modify-accepted-iff-owner-open-batch-and-not-lower", nd.Iff(accepted, ref))
	nd.Assert("C18.modify-accepted-iff-documented-preconditions", nd.Iff(accepted, ref))
	nd.Assert("C08.modify-accepted-only-while-open", !accepted || sp.status == types.AuctionStatusStarted)
	// C06: an accepted fixed-price bid is final — it cannot be enlarged behind the published remainder
	if !sp.batch {
		nd.Assert("C06.fixed-price-bid-cannot-be-modified", !accepted)
		if fa, ok := getAuction(e, tid()).(*types.FixedPriceAuction); ok && sp.status == types.AuctionStatusStarted {
			sold := nd.ZOf(0)
			for _, b := range bidsOf(e, tid()) {
				sold = sold.Add(sellAmtZ(b))
			}
			nd.Assert("C06.remainder-is-offered-minus-accepted-after-modify", nd.ZInt(fa.RemainingSellingCoin.Amount).EQ(nd.ZInt(st.offered()).Sub(sold)))
		}
	}
	nd.Observe("accepted", accepted)

	post := snapshot(e, trackedAccounts(tid()))
	postBids := bidsOf(e, tid())
	nd.Assert("C11.modify-no-bid-removed", len(postBids) == len(preBids))
	nd.Assert("C02.modify-zero-sum", post.total(denomPay).EQ(pre.total(denomPay)))
	if len(postBids) != len(preBids) {
		return
	}
	// nothing appears under the neighbouring auction ids (a record that loses its auction id lands under 0)
	nd.Assert("C19.modify-writes-no-bid-under-another-auction", len(bidsOf(e, tid()-1)) == 0 && len(bidsOf(e, tid()+1)) == 0)
	for i, b := range preBids {
		nb := postBids[i]
		if accepted && i == target {
			nd.Assert("C19.modify-changes-the-bid-of-its-own-auction", nd.And(nb.Price.Equal(price), nb.Coin.Amount.Equal(amt)))
		}
		nd.Assert("C19.modify-bid-identity-kept", nb.Id == b.Id && nb.AuctionId == b.AuctionId && nb.Bidder == b.Bidder && nb.Type == b.Type && nb.Coin.Denom == b.Coin.Denom)
		if accepted && i == target {
			nd.Assert("C11.modify-stores-new-terms", nd.And(nb.Price.Equal(price), nb.Coin.Amount.Equal(amt)))
			nd.Assert("C11.modify-reservation-never-lower", payAmtZ(nb).GE(payAmtZ(b)))
		} else {
			nd.Assert("C11.modify-other-bids-unchanged", nd.And(nb.Price.Equal(b.Price), nb.Coin.Amount.Equal(b.Coin.Amount)))
		}
	}
	sg := addr(signer)
	if accepted {
		nd.Cover("modify-accepted")
		nd.Assert("C04.modify-tops-the-reservation-up-to-what-settlement-accounts-for", nd.And(
			post.get(sg, denomPay).EQ(pre.get(sg, denomPay).Sub(delta)),
			post.get(st.payingAddr(), denomPay).EQ(pre.get(st.payingAddr(), denomPay).Add(delta))))
		// C02: the only amount that leaves the bidder's account is the increase of the reservation of their own bid
		nd.Assert("C02.modify-takes-exactly-the-reservation-increase", nd.And(
			post.get(sg, denomPay).EQ(pre.get(sg, denomPay).Sub(delta)),
			post.get(st.payingAddr(), denomPay).EQ(pre.get(st.payingAddr(), denomPay).Add(delta))))
		nd.Assert("C11.modify-charges-exact-difference", nd.And(delta.GE(nd.ZOf(0)),
			post.get(sg, denomPay).EQ(pre.get(sg, denomPay).Sub(delta)),
			post.get(st.payingAddr(), denomPay).EQ(pre.get(st.payingAddr(), denomPay).Add(delta))))
		os, op, ov := owed(e, tid())
		nd.Assert("C01.modify-escrows-exact", nd.And(
			post.get(st.sellingAddr(), denomSell).EQ(os.Add(nd.ZInt(st.donS))),
			post.get(st.payingAddr(), denomPay).EQ(op.Add(nd.ZInt(st.donP))),
			post.get(st.vestingAddr(), denomPay).EQ(ov.Add(nd.ZInt(st.donV)))))
		a := getAuction(e, tid())
		assertTermsUnchanged("C19.modify-terms", preA, a, sp.nEnd)
		nd.Assert("C08.modify-status-unchanged", a.GetStatus() == sp.status)
		assertRI(e, tid(), "RI.modify")
	} else {
		nd.Cover("modify-rejected")
	}
}

// H_Allowed: the allow-list API (AddAllowedBidders / UpdateAllowedBidder) and
// the testing-only message with the process-wide switch symbolic (C10, C18, C19).
func H_Allowed() {
	now := nd.Time("now")
	e := env.New(now)
	setParams(e, "p.")
	sp := pickSpec("a.", tid())
	sp.allowAll = false
	sp.nUsers = 1
	sp.nBids = 0
	st := buildAuction(e, "a.", sp)
	setAuctionSeq(e, tid()+1)
	exists := nd.Pick("m.exists", 2) == 1
	id := tid()
	if !exists {
		id = 7
	}
	who := user(2)
	whoCase := nd.Pick("m.addrOK", 3)
	whoOK := whoCase != 0
	if !whoOK {
		who = badAddr
	}
	whoMsg := who
	if whoCase == 2 {
		whoMsg = userUpper(2)
	}
	newCap := anyInt("m.cap")
	op := nd.Pick("op", 4)
	preListed1, preCap1 := st.allowed[1], st.caps[1]
	preA := st.auction()
	var err error
	switch op {
	case 0: // module API: add
		err = e.K.AddAllowedBidders(e.Ctx, id, []types.AllowedBidder{{AuctionId: id, Bidder: whoMsg, MaxBidAmount: newCap}})
		ref := nd.And(exists, whoOK, newCap.IsPositive(), newCap.LTE(st.offered()))
		nd.Assert("C18.add-allowed-accepted-iff-preconditions", nd.Iff(err == nil, ref))
		if err == nil {
			ab, gerr := e.K.AllowedBidder.Get(e.Ctx, collections.Join(id, addr(who)))
			// the entry is stored under the canonical spelling (Match looks bidders up by string)
			nd.Assert("C10.add-allowed-stores-entry", gerr == nil && ab.Bidder == who && ab.AuctionId == id && ab.MaxBidAmount.Equal(newCap))
			nd.Cover("allowed-added")
		}
	case 1: // module API: update (user 1's entry)
		err = e.K.UpdateAllowedBidder(e.Ctx, id, addr(user(1)), newCap)
		ref := nd.And(exists, preListed1, newCap.IsPositive())
		nd.Assert("C18.update-allowed-accepted-iff-preconditions", nd.Iff(err == nil, ref))
		if err == nil {
			ab, gerr := e.K.AllowedBidder.Get(e.Ctx, collections.Join(id, addr(user(1))))
			nd.Assert("C10.update-allowed-stores-cap", gerr == nil && ab.MaxBidAmount.Equal(newCap))
			nd.Cover("allowed-updated")
		}
	case 2: // transaction message, switch symbolic
		sw := nd.Bool("switch")
		keeper.EnableAddAllowedBidder = sw
		msg := types.NewMsgAddAllowedBidder(id, types.AllowedBidder{AuctionId: id, Bidder: whoMsg, MaxBidAmount: newCap})
		vErr := msg.ValidateBasic()
		if vErr == nil {
			_, err = e.Msg.AddAllowedBidder(e.Ctx, msg)
		} else {
			err = vErr
		}
		nd.Assert("C10.message-refused-unless-switch-on", nd.Implies(err == nil, sw))
		if whoOK {
			_, gerr := e.K.AllowedBidder.Get(e.Ctx, collections.Join(id, addr(who)))
			nd.Assert("C10.message-writes-only-with-switch-on", nd.Implies(gerr == nil, sw))
		}
		if err == nil {
			nd.Cover("allowed-by-message")
		} else {
			nd.Cover("allowed-message-refused")
		}
	case 3: // transaction message naming an account that may already be on the list: it must not change the entry either
		sw := nd.Bool("switch")
		keeper.EnableAddAllowedBidder = sw
		msg := types.NewMsgAddAllowedBidder(id, types.AllowedBidder{AuctionId: id, Bidder: user(1), MaxBidAmount: newCap})
		vErr := msg.ValidateBasic()
		if vErr == nil {
			_, err = e.Msg.AddAllowedBidder(e.Ctx, msg)
		} else {
			err = vErr
		}
		nd.Assert("C10.message-for-listed-account-refused-unless-switch-on", nd.Implies(err == nil, sw))
		ab, gerr := e.K.AllowedBidder.Get(e.Ctx, collections.Join(tid(), addr(user(1))))
		nd.Assert("C10.message-cannot-create-entry-with-switch-off", nd.Or(sw, (gerr == nil) == preListed1))
		if gerr == nil && preListed1 {
			nd.Assert("C10.message-cannot-change-entry-with-switch-off", nd.Or(sw, ab.MaxBidAmount.Equal(preCap1)))
		}
		if err == nil {
			nd.Cover("listed-by-message")
		}
	}
	// frame: the auction record and user 1's entry are untouched unless targeted
	a := getAuction(e, tid())
	assertTermsUnchanged("C19.allowed-terms", preA, a, sp.nEnd)
	nd.Assert("C19.allowed-status-unchanged", a.GetStatus() == sp.status)
	assertRI(e, tid(), "RI.allowed")
	if (op != 1 && op != 3) || err != nil {
		ab, gerr := e.K.AllowedBidder.Get(e.Ctx, collections.Join(tid(), addr(user(1))))
		nd.Assert("C19.allowed-other-entry-unchanged", (gerr == nil) == preListed1)
		if gerr == nil && preListed1 {
			nd.Assert("C19.allowed-other-cap-unchanged", ab.MaxBidAmount.Equal(preCap1))
		}
	}
}

// H_UpdateParams: MsgUpdateParams is accepted iff signed by the authority with valid parameters.
func H_UpdateParams() {
	now := nd.Time("now")
	e := env.New(now)
	old := setParams(e, "p.")
	signerCase := nd.Pick("m.signer", 3)
	signer := env.Authority
	switch signerCase {
	case 1:
		signer = user(0)
	case 2:
		signer = badAddr
	}
	fee := anyInt("m.createFee")
	denomOK := nd.Pick("m.denomOK", 2) == 1
	d := denomFee
	if !denomOK {
		d = "z"
	}
	np := types.Params{AuctionCreationFee: sdk.Coins{sdk.Coin{Denom: d, Amount: fee}}, PlaceBidFee: sdk.Coins{}, ExtendedPeriod: nd.Uint32("m.period")}
	_, err := e.Msg.UpdateParams(e.Ctx, &types.MsgUpdateParams{Authority: signer, Params: np})
	ref := nd.And(signerCase == 0, denomOK, fee.IsPositive())
	nd.Assert("C18.params-accepted-iff-authority-and-valid", nd.Iff(err == nil, ref))
	cur := getParams(e)
	if err == nil {
		nd.Assert("C18.params-stored", cur.ExtendedPeriod == np.ExtendedPeriod && len(cur.AuctionCreationFee) == 1 && cur.AuctionCreationFee[0].Amount.Equal(fee))
		nd.Cover("params-updated")
	} else {
		nd.Assert("C18.params-unchanged-on-reject", cur.ExtendedPeriod == old.ExtendedPeriod)
		nd.Cover("params-rejected")
	}
	_ = time.Second
}
