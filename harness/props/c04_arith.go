package props

import (
	"cosmossdk.io/math"
	sdk "github.com/cosmos/cosmos-sdk/types"

	"github.com/tendermint/fundraising/x/fundraising/types"

	"verif/harness/nd"
)

func init() {
	register("H_C04_Conversions", H_C04_Conversions)
}

// zS is the 18-decimal scale (a function: package initialisers are not run by the engine).
func zS() nd.Z { return nd.ZStr("1000000000000000000") }

// H_C04_Conversions: the two conversion helpers of a bid, for every price and amount.
//
//	quantity bid A at price p reserves c = ceil(A*p/S):   0 <= c*S - A*p < S
//	worth bid X at price p converts to q = floor(X*S/p):  0 <= X*S - p*q < p
func H_C04_Conversions() {
	bits := nd.Param("bits", 128)
	p := nd.DecN("price", bits)
	nd.Assume(p.IsPositive())
	a := nd.IntN("amount", bits)
	nd.Assume(a.IsPositive())
	which := nd.Pick("denom", 2)
	denom := "pay"
	if which == 1 {
		denom = "sell"
	}
	bid := types.Bid{AuctionId: 0, Id: 1, Bidder: "", Type: types.BidTypeBatchMany, Price: p, Coin: sdk.Coin{Denom: denom, Amount: a}}
	pay := bid.ConvertToPayingAmount("pay")
	sell := bid.ConvertToSellingAmount("pay")
	zp, za := nd.ZDec(p), nd.ZInt(a)
	if which == 0 {
		// paying-denominated: pays exactly the coin, receives floor(X*S/p)
		nd.Assert("C04.conv.pay-is-coin", pay.Equal(a))
		q := nd.ZInt(sell)
		rem := za.Mul(zS()).Sub(zp.Mul(q))
		nd.Assert("C04.conv.floor-lower", rem.GE(nd.ZOf(0)))
		nd.Assert("C04.conv.floor-upper", rem.LT(zp))
		nd.Cover("paying-denominated")
	} else {
		nd.Assert("C04.conv.sell-is-coin", sell.Equal(a))
		c := nd.ZInt(pay)
		over := c.Mul(zS()).Sub(za.Mul(zp))
		nd.Assert("C04.conv.ceil-lower", over.GE(nd.ZOf(0)))
		nd.Assert("C04.conv.ceil-upper", over.LT(zS()))
		nd.Cover("selling-denominated")
	}
	nd.Observe("pay", pay)
	nd.Observe("sell", sell)
	_ = math.ZeroInt
}

func init() {
	register("H_C04_MatchKernel", H_C04_MatchKernel)
}

// H_C04_MatchKernel: the arithmetic kernel of types.Match for a single bid with
// ample cap and supply, for every price, match price and amount: the matched
// quantity is floor(worth*S/matchPrice) (worth bid) or the amount (quantity
// bid), and the payment is ceil(matchPrice*quantity/S), never above the
// reservation when the match price does not exceed the bid price.
func H_C04_MatchKernel() {
	bits := nd.Param("bits", 100)
	p := nd.DecN("bidPrice", bits)
	m := nd.DecN("matchPrice", bits)
	a := nd.IntN("amount", bits)
	nd.Assume(a.IsPositive())
	nd.Assume(m.IsPositive())
	nd.Assume(m.LTE(p))
	worth := nd.Pick("worth", 2) == 1
	bid := types.Bid{AuctionId: 0, Id: 1, Bidder: user(1), Type: types.BidTypeBatchMany, Price: p, Coin: sdk.Coin{Denom: denomSell, Amount: a}}
	if worth {
		bid.Type = types.BidTypeBatchWorth
		bid.Coin.Denom = denomPay
	}
	big := nd.IntN("cap", 2*bits+70)
	qty := nd.ZInt(a)
	if worth {
		qty = nd.ZInt(a).Mul(zS()).FloorDiv(nd.ZDec(m))
	}
	nd.Assume(nd.ZInt(big).GE(qty))
	res, matched := types.Match(m, []math.LegacyDec{p}, map[string][]types.Bid{p.String(): {bid}}, big, []types.AllowedBidder{{AuctionId: 0, Bidder: user(1), MaxBidAmount: big}})
	nd.Assert("C04.kernel-fits", res != nil)
	if res == nil {
		return
	}
	r := res.MatchResultByBidder[user(1)]
	nd.Assert("C04.kernel-bidder-result", r != nil)
	if r == nil {
		return
	}
	got, paid := nd.ZInt(r.MatchedAmount), nd.ZInt(r.PayingAmount)
	nd.Assert("C04.kernel-quantity", got.EQ(qty))
	nd.Assert("C04.kernel-matched-iff-positive", nd.Iff(matched, qty.IsPos()))
	nd.Assert("C04.kernel-payment-is-ceiling", paid.EQ(nd.ZDec(m).Mul(qty).CeilDiv(zS())))
	nd.Assert("C04.kernel-payment-within-reservation", paid.LE(payAmtZ(bid)))
	nd.Observe("got", r.MatchedAmount)
	nd.Observe("paid", r.PayingAmount)
	nd.Cover("kernel")
}
