package props

import (
	sdk "github.com/cosmos/cosmos-sdk/types"

	"github.com/tendermint/fundraising/x/fundraising/types"

	"verif/harness/env"
	"verif/harness/nd"
)

func init() {
	register("H_C06_FixedAccept", H_C06_FixedAccept)
}

// H_C06_FixedAccept: a fixed-price bid is accepted exactly under the reference
// predicate and the remainder is decremented exactly (DESIGN §6 C06).
// State: one open fixed-price auction (id 0) with 0..N earlier bids by two
// possible bidders, RI holding (remainder = offered - sum of earlier bids).
func H_C06_FixedAccept() {
	now := nd.Time("now")
	e := env.New(now)
	params := setParams(e, "p.")
	const target = uint64(1)
	ba := newBaseAuction("a.", auctionSpec{id: target, status: types.AuctionStatusStarted, auctioneer: user(0), nEndTimes: 1, nSchedules: 0})
	setAuctionSeq(e, 3)
	offered := ba.SellingCoin.Amount

	nPrev := nd.Pick("nPrev", nd.Param("maxPrev", 2)+1)
	bidderIdx := nd.Pick("bidder", 2) + 1 // users 1,2
	bidder := user(bidderIdx)

	// earlier bids (all accepted fixed-price bids at the start price)
	sold := nd.ZOf(0)
	soldByBidder := nd.ZOf(0)
	reserved := nd.ZOf(0)
	var prev []types.Bid
	for i := 0; i < nPrev; i++ {
		pi := itoa(i)
		owner := user(nd.Pick("prev"+pi+".owner", 2) + 1)
		denom := denomPay
		if nd.Pick("prev"+pi+".denom", 2) == 1 {
			denom = denomSell
		}
		b := types.Bid{AuctionId: target, Id: uint64(i + 1), Bidder: owner, Type: types.BidTypeFixedPrice,
			Price: ba.StartPrice, Coin: sdk.NewCoin(denom, posInt("prev"+pi+".amt")), IsMatched: true}
		setBid(e, b)
		prev = append(prev, b)
		sold = sold.Add(sellAmtZ(b))
		reserved = reserved.Add(payAmtZ(b))
		if owner == bidder {
			soldByBidder = soldByBidder.Add(sellAmtZ(b))
		}
	}
	setBidSeq(e, target, uint64(nPrev))
	nd.Assume(sold.LE(nd.ZInt(offered))) // RI R5: remainder >= 0
	remaining := nd.ZInt(offered).Sub(sold)
	fa := types.NewFixedPriceAuction(ba, sdk.NewCoin(denomSell, remaining.Int()))
	setAuction(e, fa)

	// the same bidder's bids in other auctions (a lower and a higher id) must not count here
	if nd.Pick("otherLower", 2) == 1 {
		setBid(e, types.Bid{AuctionId: 0, Id: 1, Bidder: bidder, Type: types.BidTypeFixedPrice, Price: posDec("o0.price"), Coin: sdk.NewCoin(denomSell, posInt("o0.amt")), IsMatched: true})
		setBidSeq(e, 0, 1)
		setAllowed(e, 0, bidder, posInt("o0.cap"))
	}
	if nd.Pick("otherHigher", 2) == 1 {
		setBid(e, types.Bid{AuctionId: 2, Id: 1, Bidder: bidder, Type: types.BidTypeBatchMany, Price: posDec("o2.price"), Coin: sdk.NewCoin(denomSell, posInt("o2.amt")), IsMatched: false})
		setBidSeq(e, 2, 1)
		// ... where the bidder is, of course, allow-listed (RI R6) — which says nothing about this auction
		setAllowed(e, 2, bidder, posInt("o2.cap"))
	}
	// allow-list: symbolic cap for the bidder, or absent
	allowed := nd.Pick("allowed", 2) == 1
	capAmt := posInt("cap")
	if allowed {
		setAllowed(e, target, bidder, capAmt)
	}
	// escrows per RI R5 (plus donations)
	donS, donP := nonnegInt("donS"), nonnegInt("donP")
	e.SetBal(fa.GetSellingReserveAddress(), denomSell, offered.Add(donS))
	e.SetBal(fa.GetPayingReserveAddress(), denomPay, reserved.Int().Add(donP))
	balFee, balPay := nonnegInt("bal.fee"), nonnegInt("bal.pay")
	e.SetBal(addr(bidder), denomFee, balFee)
	e.SetBal(addr(bidder), denomPay, balPay)

	// the message
	msgDenom := denomPay
	switch nd.Pick("msg.denom", 3) {
	case 1:
		msgDenom = denomSell
	case 2:
		msgDenom = denomOdd
	}
	price := ba.StartPrice
	samePrice := nd.Pick("msg.samePrice", 2) == 1
	if !samePrice {
		price = posDec("msg.price")
		nd.Assume(!price.Equal(ba.StartPrice))
	}
	amt := posInt("msg.amt")
	msg := types.NewMsgPlaceBid(target, bidder, types.BidTypeFixedPrice, price, sdk.NewCoin(msgDenom, amt))
	nd.Assume(msg.ValidateBasic() == nil)
	_, err := e.Msg.PlaceBid(e.Ctx, msg)

	// reference predicate
	nb := types.Bid{Price: price, Coin: msg.Coin}
	fee := nd.ZInt(params.PlaceBidFee.AmountOf(denomFee))
	wantSell := sellAmtZ(nb)
	wantPay := payAmtZ(nb)
	ref := nd.And(
		msgDenom != denomOdd,
		samePrice,
		allowed,
		wantSell.LE(remaining),
		soldByBidder.Add(wantSell).LE(nd.ZInt(capAmt)),
		fee.LE(nd.ZInt(balFee)),
		wantPay.LE(nd.ZInt(balPay)),
	)
	nd.Assert("C06.accept-iff-reference", nd.Iff(err == nil, ref))
	nd.Assert("C18.fixed-bid-accepted-iff-documented-preconditions-with-other-auctions-present", nd.Iff(err == nil, ref))
	// C19: the reference ignores the bidder's bids in other auctions — they must not affect what the bidder may do here
	nd.Assert("C19.bids-in-other-auctions-do-not-affect-acceptance", nd.Iff(err == nil, ref))
	nd.Assert("C10.fixed-bid-accepted-only-if-allow-listed-in-this-auction", err != nil || allowed)

	after := getAuction(e, target).(*types.FixedPriceAuction)
	if err == nil {
		nd.Assert("C06.remainder-decremented", nd.ZInt(after.RemainingSellingCoin.Amount).EQ(remaining.Sub(wantSell)))
		nd.Assert("C06.remainder-nonneg", !after.RemainingSellingCoin.Amount.IsNegative())
		nd.Assert("C06.escrow-grows-by-payment", nd.ZInt(e.Bal(fa.GetPayingReserveAddress(), denomPay)).EQ(reserved.Add(nd.ZInt(donP)).Add(wantPay)))
		nd.Assert("C06.bidder-pays-exactly", nd.ZInt(e.Bal(addr(bidder), denomPay)).EQ(nd.ZInt(balPay).Sub(wantPay)))
		nb2, gerr := e.K.Bid.Get(e.Ctx, joinKey(target, uint64(nPrev+1)))
		nd.Assert("C06.bid-recorded", gerr == nil)
		if gerr == nil {
			nd.Assert("C06.bid-recorded-terms", nd.And(nb2.Bidder == bidder, nb2.Coin.Denom == msgDenom, nb2.Coin.Amount.Equal(amt), nb2.Price.Equal(price), nb2.IsMatched))
		}
		nd.Cover("accepted")
	} else {
		nd.Cover("rejected")
	}
	// earlier bids are never displaced or scaled
	for i, b := range prev {
		cur, gerr := e.K.Bid.Get(e.Ctx, joinKey(target, uint64(i+1)))
		nd.Assert("C06.earlier-bid-untouched", gerr == nil && cur.Bidder == b.Bidder && cur.Coin.Denom == b.Coin.Denom && nd.And(cur.Coin.Amount.Equal(b.Coin.Amount), cur.Price.Equal(b.Price)))
	}
	nd.Observe("err", err)
	nd.Observe("remaining", after.RemainingSellingCoin.Amount)
}
