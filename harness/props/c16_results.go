package props

import (
	"github.com/tendermint/fundraising/x/fundraising/keeper"
	"github.com/tendermint/fundraising/x/fundraising/types"

	"verif/harness/env"
	"verif/harness/model"
	"verif/harness/nd"
)

func init() {
	register("H_C16_Settle", H_C16_Settle)
	register("H_C16_Queries", H_C16_Queries)
}

// H_C16_Settle: the final settlement of a batch auction whose bids carry
// arbitrary provisional flags from earlier end times (RI: flags of open
// batch bids are unconstrained). After settlement: a bid is flagged matched
// iff its bidder received coins (one bid per bidder), and the published
// matched price is the price the winners actually paid (0 if nothing sold).
func H_C16_Settle() {
	now := nd.Time("now")
	e := env.New(now)
	setParams(e, "p.")
	nBids := nd.Pick("nBids", nd.Param("maxBids", 2)) + 1
	nEnd := nd.Pick("nEnd", 2) + 1
	sp := aSpec{id: 0, batch: true, status: types.AuctionStatusStarted, auctioneer: 0, nBids: nBids,
		nSched: 0, nEnd: nEnd, nUsers: nBids, allowAll: true, hasMatchedLen: nEnd >= 2}
	st := buildAuction(e, "a.", sp)
	setAuctionSeq(e, 1)
	// one bid per bidder: bid i belongs to user i+1
	for i, b := range st.bids {
		if b.Bidder != user(i+1) {
			nd.Assume(false)
		}
	}
	// final settlement: no extended rounds left, end time reached
	nd.Assume(st.batchA.MaxExtendedRound+1 == uint32(nEnd))
	nd.Assume(!st.base.EndTimes[nEnd-1].After(now))
	plan := &model.Listener{Name: "plan"}
	e.SetHooks(types.NewMultiFundraisingHooks(plan))
	pre := snapshot(e, trackedAccounts(0))
	err := e.K.BeginBlocker(e.Ctx)
	nd.Assert("C16.settlement-succeeds", err == nil)
	if err != nil {
		return
	}
	post := snapshot(e, trackedAccounts(0))
	a := getAuction(e, 0).(*types.BatchAuction)
	nd.Assert("C16.settled", a.GetStatus() == types.AuctionStatusFinished)
	bids := bidsOf(e, 0)
	nd.Assert("C16.bids-kept", len(bids) == nBids)
	published := nd.ZDec(a.MatchedPrice)
	sold := nd.ZOf(0)
	if len(bids) == nBids {
		for i, b := range bids {
			u := addr(user(i + 1))
			got := post.get(u, denomSell).Sub(pre.get(u, denomSell))
			paid := payAmtZ(st.bids[i]).Sub(post.get(u, denomPay).Sub(pre.get(u, denomPay)))
			sold = sold.Add(got)
			nd.Assert("C16.flag-iff-received-coins", nd.Iff(b.IsMatched, got.IsPos()))
			// the published price is the one this winner paid (within one unit of rounding)
			nd.Assert("C16.published-price-is-paid-price", nd.Implies(got.IsPos(), nd.And(
				paid.Mul(zS()).GE(published.Mul(got)), paid.Mul(zS()).LT(published.Mul(got).Add(zS())))))
			nd.Observe("got"+itoa(i), got.Int())
		}
	}
	nd.Assert("C16.published-price-zero-iff-nothing-sold", nd.Iff(published.IsZero(), sold.IsZero()))
	// ---- C02: the transfers of a batch settlement are exactly the plan (allocation / refund maps) ----
	nd.Assert("C02.batch-plan-announced", plan.Alloc != nil && plan.Refund != nil)
	if plan.Alloc != nil && plan.Refund != nil && len(bids) == nBids {
		totalAlloc, totalRefund := nd.ZOf(0), nd.ZOf(0)
		for i := range bids {
			u := addr(user(i + 1))
			al, ok := plan.Alloc[user(i+1)]
			rf, ok2 := plan.Refund[user(i+1)]
			nd.Assert("C02.batch-plan-covers-every-bidder", ok && ok2)
			if ok && ok2 {
				nd.Assert("C02.batch-bidder-receives-allocation", post.get(u, denomSell).Sub(pre.get(u, denomSell)).EQ(nd.ZInt(al)))
				nd.Assert("C02.batch-bidder-receives-refund", post.get(u, denomPay).Sub(pre.get(u, denomPay)).EQ(nd.ZInt(rf)))
				totalAlloc, totalRefund = totalAlloc.Add(nd.ZInt(al)), totalRefund.Add(nd.ZInt(rf))
			}
		}
		au := addr(st.base.Auctioneer)
		nd.Assert("C02.batch-auctioneer-gets-unsold-coins", post.get(au, denomSell).Sub(pre.get(au, denomSell)).EQ(pre.get(st.sellingAddr(), denomSell).Sub(totalAlloc)))
		nd.Assert("C02.batch-auctioneer-gets-all-payments", post.get(au, denomPay).Sub(pre.get(au, denomPay)).EQ(pre.get(st.payingAddr(), denomPay).Sub(totalRefund)))
		nd.Assert("C02.batch-escrows-empty", nd.And(post.get(st.sellingAddr(), denomSell).IsZero(), post.get(st.payingAddr(), denomPay).IsZero()))
		nd.Assert("C01.batch-escrows-empty-after-settlement", nd.And(post.get(st.sellingAddr(), denomSell).IsZero(), post.get(st.payingAddr(), denomPay).IsZero()))
	}
	nd.Observe("published", a.MatchedPrice)
	if nd.Symbolic() || true {
		nd.Cover("settled")
	}
}

// H_C16_Queries: queries by id and listings with filters return exactly the
// stored objects that satisfy the request (pagination nil).
func H_C16_Queries() {
	now := nd.Time("now")
	e := env.New(now)
	setParams(e, "p.")
	A := buildAuction(e, "a.", aSpec{id: 0, status: types.AuctionStatusFinished, auctioneer: 0, nBids: 1, nSched: 1, nEnd: 1, nUsers: 1, allowAll: true})
	B := buildAuction(e, "b.", aSpec{id: 1, batch: true, status: types.AuctionStatusVesting, auctioneer: 0, nBids: 1, nSched: 1, nEnd: 1, nUsers: 1, allowAll: true, hasMatchedLen: true})
	setAuctionSeq(e, 2)
	_, _ = A, B
	q := keeper.NewQueryServerImpl(e.K)
	switch nd.Pick("query", 6) {
	case 0: // by id
		r, err := q.GetBid(e.Ctx, &types.QueryGetBidRequest{AuctionId: 1, BidId: 1})
		nd.Assert("C16.get-bid", err == nil && r != nil && r.Bid.AuctionId == 1 && r.Bid.Id == 1 && nd.And(r.Bid.Coin.Amount.Equal(B.bids[0].Coin.Amount), r.Bid.Price.Equal(B.bids[0].Price)))
		_, err2 := q.GetBid(e.Ctx, &types.QueryGetBidRequest{AuctionId: 1, BidId: 5})
		nd.Assert("C16.get-bid-absent", err2 != nil)
		ra, err3 := q.GetAuction(e.Ctx, &types.QueryGetAuctionRequest{AuctionId: 1})
		nd.Assert("C16.get-auction", err3 == nil && ra != nil)
		if err3 == nil && ra != nil {
			au, uerr := types.UnpackAuction(ra.Auction)
			nd.Assert("C16.get-auction-is-stored-object", uerr == nil && au.GetId() == 1 && au.GetStatus() == types.AuctionStatusVesting && au.GetType() == types.AuctionTypeBatch)
		}
		rb, err4 := q.GetAllowedBidder(e.Ctx, &types.QueryGetAllowedBidderRequest{AuctionId: 1, Bidder: user(1)})
		nd.Assert("C16.get-allowed-bidder", err4 == nil && rb != nil && rb.AllowedBidder.AuctionId == 1 && rb.AllowedBidder.MaxBidAmount.Equal(B.caps[1]))
		nd.Cover("query-by-id")
	case 1: // auctions by status / type
		r, err := q.ListAuction(e.Ctx, &types.QueryAllAuctionRequest{Status: types.AuctionStatusVesting.String()})
		nd.Assert("C16.list-auction-by-status", err == nil && r != nil && len(r.Auction) == 1)
		if err == nil && r != nil && len(r.Auction) == 1 {
			au, _ := types.UnpackAuction(r.Auction[0])
			nd.Assert("C16.list-auction-by-status-object", au.GetId() == 1)
		}
		r2, err2 := q.ListAuction(e.Ctx, &types.QueryAllAuctionRequest{Type: types.AuctionTypeFixedPrice.String()})
		nd.Assert("C16.list-auction-by-type", err2 == nil && r2 != nil && len(r2.Auction) == 1)
		r3, err3 := q.ListAuction(e.Ctx, &types.QueryAllAuctionRequest{})
		nd.Assert("C16.list-auction-all", err3 == nil && r3 != nil && len(r3.Auction) == 2)
		// both filters at once: every non-default field must hold
		r4, err4 := q.ListAuction(e.Ctx, &types.QueryAllAuctionRequest{Type: types.AuctionTypeBatch.String(), Status: types.AuctionStatusFinished.String()})
		nd.Assert("C16.list-auction-by-type-and-status-empty", err4 == nil && r4 != nil && len(r4.Auction) == 0)
		r5, err5 := q.ListAuction(e.Ctx, &types.QueryAllAuctionRequest{Type: types.AuctionTypeBatch.String(), Status: types.AuctionStatusVesting.String()})
		nd.Assert("C16.list-auction-by-type-and-status", err5 == nil && r5 != nil && len(r5.Auction) == 1)
		r6, err6 := q.ListAuction(e.Ctx, &types.QueryAllAuctionRequest{Type: types.AuctionTypeFixedPrice.String(), Status: types.AuctionStatusVesting.String()})
		nd.Assert("C16.list-auction-by-type-and-other-status-empty", err6 == nil && r6 != nil && len(r6.Auction) == 0)
		nd.Cover("query-auctions")
	case 2: // bids of one auction
		r, err := q.ListBid(e.Ctx, &types.QueryAllBidRequest{AuctionId: 1})
		// listed finding: the response is the unfiltered list of all stored bids
		nd.Known("C16-list-bid-ignores-filters", err == nil && r != nil && len(r.Bid) == 2)
		nd.Assert("C16.list-bid-by-auction", err == nil && r != nil && len(r.Bid) == 1 && r.Bid[0].AuctionId == 1)
		nd.ClearKnown()
		nd.Cover("query-bids")
	case 3: // bids by bidder / matched flag
		r, err := q.ListBid(e.Ctx, &types.QueryAllBidRequest{Bidder: user(2)})
		nd.Known("C16-list-bid-ignores-filters", err == nil && r != nil && len(r.Bid) == 2)
		nd.Assert("C16.list-bid-by-bidder", err == nil && r != nil && len(r.Bid) == 0)
		nd.ClearKnown()
		r2, err2 := q.ListBid(e.Ctx, &types.QueryAllBidRequest{})
		nd.Assert("C16.list-bid-all", err2 == nil && r2 != nil && len(r2.Bid) == 2)
		nd.Cover("query-bids-by-bidder")
	case 4:
		r, err := q.ListAllowedBidder(e.Ctx, &types.QueryAllAllowedBidderRequest{AuctionId: 1})
		nd.Known("C16-list-allowed-bidder-ignores-filter", err == nil && r != nil && len(r.AllowedBidder) == 2)
		nd.Assert("C16.list-allowed-bidder-by-auction", err == nil && r != nil && len(r.AllowedBidder) == 1 && r.AllowedBidder[0].AuctionId == 1)
		nd.ClearKnown()
		nd.Cover("query-allowed")
	case 5:
		r, err := q.ListVestingQueue(e.Ctx, &types.QueryAllVestingQueueRequest{AuctionId: 1})
		nd.Known("C16-list-vesting-queue-ignores-filter", err == nil && r != nil && len(r.VestingQueue) == 2)
		nd.Assert("C16.list-vesting-queue-by-auction", err == nil && r != nil && len(r.VestingQueue) == 1 && r.VestingQueue[0].AuctionId == 1)
		nd.ClearKnown()
		// add an instalment for auction 0 so that an unfiltered listing differs
		nd.Cover("query-queues")
	}
}
