package props

import (
	"context"
	"time"

	"cosmossdk.io/collections"
	"cosmossdk.io/math"
	sdk "github.com/cosmos/cosmos-sdk/types"

	"github.com/tendermint/fundraising/x/fundraising/types"

	"verif/harness/env"
	"verif/harness/model"
	"verif/harness/nd"
)

func init() {
	register("H_C17_Dispatch", H_C17_Dispatch)
	register("H_C17_CallSites", H_C17_CallSites)
}

// H_C17_Dispatch: the multi-listener dispatcher, each of the ten methods, every
// position of a failing listener among n.
func H_C17_Dispatch() {
	n := nd.Pick("listeners", nd.Param("maxListeners", 2)) + 1
	mi := nd.Pick("method", len(model.HookMethods))
	method := model.HookMethods[mi]
	failPos := nd.Pick("failPos", n+1) // 0 = nobody fails, k = listener k-1 fails
	ls := make([]*model.Listener, n)
	hs := make([]types.FundraisingHooks, n)
	for i := range ls {
		ls[i] = &model.Listener{Name: "L" + itoa(i)}
		if failPos == i+1 {
			ls[i].FailOn = method
		}
		hs[i] = ls[i]
	}
	h := types.NewMultiFundraisingHooks(hs...)
	ctx := context.Background()
	price, minBid, rate := posDec("price"), posDec("minBid"), posDec("rate")
	amt := posInt("amt")
	coin := sdk.NewCoin(denomSell, amt)
	start, end := nd.Time("start"), nd.Time("end")
	id, bidId := nd.Uint64("id"), nd.Uint64("bidId")
	round := nd.Uint32("round")
	vs := []types.VestingSchedule{{ReleaseTime: nd.Time("release"), Weight: math.LegacyOneDec()}}
	var err error
	switch mi {
	case 0:
		err = h.BeforeFixedPriceAuctionCreated(ctx, user(0), price, coin, denomPay, vs, start, end)
	case 1:
		err = h.AfterFixedPriceAuctionCreated(ctx, id, user(0), price, coin, denomPay, vs, start, end)
	case 2:
		err = h.BeforeBatchAuctionCreated(ctx, user(0), price, minBid, coin, denomPay, vs, round, rate, start, end)
	case 3:
		err = h.AfterBatchAuctionCreated(ctx, id, user(0), price, minBid, coin, denomPay, vs, round, rate, start, end)
	case 4:
		err = h.BeforeAuctionCanceled(ctx, id, user(0))
	case 5:
		err = h.BeforeBidPlaced(ctx, id, bidId, user(1), types.BidTypeBatchMany, price, coin)
	case 6:
		err = h.BeforeBidModified(ctx, id, bidId, user(1), types.BidTypeBatchMany, price, coin)
	case 7:
		err = h.BeforeAllowedBiddersAdded(ctx, []types.AllowedBidder{{AuctionId: id, Bidder: user(1), MaxBidAmount: amt}})
	case 8:
		err = h.BeforeAllowedBidderUpdated(ctx, id, addr(user(1)), amt)
	case 9:
		err = h.BeforeSellingCoinsAllocated(ctx, id, map[string]math.Int{user(1): amt}, map[string]math.Int{user(1): amt})
	}
	nd.Assert("C17.dispatch-error-iff-a-listener-failed", (err != nil) == (failPos != 0))
	for i, l := range ls {
		want := 1
		if failPos != 0 && i+1 > failPos {
			want = 0 // listeners after the failing one are not called
		}
		nd.Assert("C17.dispatch-each-listener-called-once", l.Count(method) == want && len(l.Calls) == want)
		if want == 1 {
			c, _ := l.Last(method)
			// the values handed to the listener are the dispatcher's arguments
			okD := true
			for _, d := range c.D {
				okD = nd.And(okD, nd.Or(d.Equal(price), d.Equal(minBid), d.Equal(rate)))
			}
			if len(c.D) > 0 {
				nd.Assert("C17.dispatch-passes-real-price", c.D[0].Equal(price))
			}
			if len(c.I) > 0 {
				nd.Assert("C17.dispatch-passes-real-amount", c.I[0].Equal(amt))
			}
			if len(c.T) == 2 {
				nd.Assert("C17.dispatch-passes-real-times", nd.And(c.T[0].Equal(start), c.T[1].Equal(end)))
			}
			if mi == 1 || mi == 3 || mi == 4 || mi == 5 || mi == 6 || mi == 7 || mi == 8 || mi == 9 {
				nd.Assert("C17.dispatch-passes-real-id", c.U[0] == id)
			}
			nd.Assert("C17.dispatch-values-from-arguments", okD)
		}
	}
	if failPos == 0 {
		nd.Cover("dispatch-ok")
	} else {
		nd.Cover("dispatch-veto")
	}
	nd.Observe("err", err)
}

// H_C17_CallSites: every operation that offers a hook, with one listener that
// either accepts or vetoes: veto => the operation reports an error; success =>
// the listener was called exactly once with the values the operation used, and
// (Before* hooks) before the announced record was written.
func H_C17_CallSites() {
	now := nd.Time("now")
	e := env.New(now)
	setParams(e, "p.")
	op := nd.Pick("op", 8)
	veto := nd.Pick("veto", 2) == 1
	methodOf := [...]string{"BeforeFixedPriceAuctionCreated", "BeforeBatchAuctionCreated", "BeforeAuctionCanceled",
		"BeforeAllowedBiddersAdded", "BeforeAllowedBidderUpdated", "BeforeBidPlaced", "BeforeBidModified", "BeforeSellingCoinsAllocated"}
	method := methodOf[op]
	if op <= 1 && nd.Pick("after", 2) == 1 {
		// the After* twin of the creation hooks
		if op == 0 {
			method = "AfterFixedPriceAuctionCreated"
		} else {
			method = "AfterBatchAuctionCreated"
		}
	}
	l := &model.Listener{Name: "L"}
	if veto {
		l.FailOn = method
	}
	e.SetHooks(types.NewMultiFundraisingHooks(l))
	// probe: is the announced record already in the store when the hook runs?
	probe := func() int { return 0 }
	var err error
	switch op {
	case 0, 1:
		setAuctionSeq(e, 1)
		au := user(0)
		amt, price := posInt("m.amount"), posDec("m.price")
		start, end := nd.Time("m.start"), nd.Time("m.end")
		nd.Assume(end.After(start))
		nd.Assume(!now.After(end))
		e.SetBal(addr(au), denomFee, nd.IntN("bal.fee", amtBits()+1))
		e.SetBal(addr(au), denomSell, amt)
		nd.Assume(getParams(e).AuctionCreationFee.AmountOf(denomFee).LTE(e.Bal(addr(au), denomFee)))
		probe = func() int {
			if _, gerr := e.K.Auction.Get(e.Ctx, 1); gerr == nil {
				return 1
			}
			return 0
		}
		l.Clock = probe
		if op == 0 {
			_, err = e.Msg.CreateFixedPriceAuction(e.Ctx, types.NewMsgCreateFixedPriceAuction(au, price, sdk.NewCoin(denomSell, amt), denomPay, nil, start, end))
		} else {
			_, err = e.Msg.CreateBatchAuction(e.Ctx, types.NewMsgCreateBatchAuction(au, price, posDec("m.minBid"), sdk.NewCoin(denomSell, amt), denomPay, nil, 3, posDec("m.rate"), start, end))
		}
		if !veto {
			nd.Assert("C17.site-create-succeeds", err == nil)
			c, ok := l.Last(method)
			nd.Assert("C17.site-called-once", ok && l.Count(method) == 1)
			if ok {
				nd.Assert("C17.site-real-values", nd.And(c.S[0] == au, c.D[0].Equal(price), c.I[0].Equal(amt), c.T[0].Equal(start), c.T[1].Equal(end)))
				if method == "BeforeFixedPriceAuctionCreated" || method == "BeforeBatchAuctionCreated" {
					nd.Assert("C17.site-before-commit", c.Seq == 0)
				} else {
					nd.Assert("C17.site-after-commit", c.Seq == 1 && c.U[0] == 1)
				}
			}
		}
	case 2:
		st := buildAuction(e, "a.", aSpec{id: 0, status: types.AuctionStatusStandBy, nEnd: 1, nUsers: 1, allowAll: true, batch: nd.Pick("a.batch", 2) == 1})
		setAuctionSeq(e, 1)
		l.Clock = func() int {
			if getAuction(e, 0).GetStatus() == types.AuctionStatusCancelled {
				return 1
			}
			return 0
		}
		_, err = e.Msg.CancelAuction(e.Ctx, types.NewMsgCancelAuction(st.base.Auctioneer, 0))
		if !veto {
			nd.Assert("C17.site-cancel-succeeds", err == nil)
			c, ok := l.Last(method)
			nd.Assert("C17.site-called-once", ok && l.Count(method) == 1)
			if ok {
				nd.Assert("C17.site-real-values", c.U[0] == 0 && c.S[0] == st.base.Auctioneer)
				nd.Assert("C17.site-before-commit", c.Seq == 0)
			}
		}
	case 3, 4:
		st := buildAuction(e, "a.", aSpec{id: 0, status: types.AuctionStatusStarted, nEnd: 1, nUsers: 1, allowAll: true})
		setAuctionSeq(e, 1)
		newCap := posInt("m.cap")
		nd.Assume(newCap.LTE(st.offered()))
		if op == 3 {
			l.Clock = func() int {
				if _, gerr := e.K.AllowedBidder.Get(e.Ctx, collections.Join(uint64(0), addr(user(2)))); gerr == nil {
					return 1
				}
				return 0
			}
			// several entries in one call: one announcement for the whole list, before any of it is written
			err = e.K.AddAllowedBidders(e.Ctx, 0, []types.AllowedBidder{{AuctionId: 0, Bidder: user(2), MaxBidAmount: newCap}, {AuctionId: 0, Bidder: user(3), MaxBidAmount: newCap}})
		} else {
			l.Clock = func() int {
				ab, _ := e.K.AllowedBidder.Get(e.Ctx, collections.Join(uint64(0), addr(user(1))))
				if nd.And(ab.MaxBidAmount.Equal(newCap), !st.caps[1].Equal(newCap)) {
					return 1
				}
				return 0
			}
			err = e.K.UpdateAllowedBidder(e.Ctx, 0, addr(user(1)), newCap)
		}
		if !veto {
			nd.Assert("C17.site-allowlist-succeeds", err == nil)
			c, ok := l.Last(method)
			nd.Assert("C17.site-called-once", ok && l.Count(method) == 1)
			if ok {
				nd.Assert("C17.site-real-values", c.U[0] == 0 && c.I[0].Equal(newCap))
				nd.Assert("C17.site-before-commit", c.Seq == 0)
				if op == 3 {
					nd.Assert("C17.site-announces-whole-list-once", c.N == 2 && len(l.Calls) == 1)
				}
			}
		}
	case 5, 6:
		st := buildAuction(e, "a.", aSpec{id: 0, batch: true, status: types.AuctionStatusStarted, nEnd: 1, nUsers: 1, allowAll: true, nBids: 1})
		setAuctionSeq(e, 1)
		bidder := user(1)
		old := st.bids[0]
		if op == 5 {
			price, amt := posDec("m.price"), posInt("m.amt")
			nd.Assume(price.GTE(st.batchA.MinBidPrice))
			nd.Assume(amt.LTE(st.caps[1]))
			e.SetBal(addr(bidder), denomFee, getParams(e).PlaceBidFee.AmountOf(denomFee))
			nb := types.Bid{Price: price, Coin: sdk.NewCoin(denomSell, amt)}
			e.SetBal(addr(bidder), denomPay, payAmtZ(nb).Int())
			l.Clock = func() int {
				if _, gerr := e.K.Bid.Get(e.Ctx, joinKey(0, 2)); gerr == nil {
					return 1
				}
				return 0
			}
			_, err = e.Msg.PlaceBid(e.Ctx, types.NewMsgPlaceBid(0, bidder, types.BidTypeBatchMany, price, sdk.NewCoin(denomSell, amt)))
			if !veto {
				nd.Assert("C17.site-bid-succeeds", err == nil)
				c, ok := l.Last(method)
				nd.Assert("C17.site-called-once", ok && l.Count(method) == 1)
				if ok {
					nd.Assert("C17.site-real-values", nd.And(c.U[0] == 0, c.U[1] == 2, c.S[0] == bidder, c.D[0].Equal(price), c.I[0].Equal(amt)))
					nd.Assert("C17.site-before-commit", c.Seq == 0)
				}
			}
		} else {
			price := posDec("m.price")
			nd.Assume(price.GT(old.Price))
			nb := old
			nb.Price = price
			e.SetBal(addr(bidder), denomPay, payAmtZ(nb).Int())
			l.Clock = func() int {
				cur, _ := e.K.Bid.Get(e.Ctx, joinKey(0, 1))
				if cur.Price.Equal(price) {
					return 1
				}
				return 0
			}
			// the signer may spell its address in the other accepted bech32 case: the listener must be told
			// the bidder of the record that is written, not the message's spelling
			signer := bidder
			if nd.Pick("m.upper", 2) == 1 {
				signer = userUpper(1)
			}
			_, err = e.Msg.ModifyBid(e.Ctx, types.NewMsgModifyBid(0, signer, 1, price, old.Coin))
			if !veto {
				nd.Assert("C17.site-modify-succeeds", err == nil)
				c, ok := l.Last(method)
				nd.Assert("C17.site-called-once", ok && l.Count(method) == 1)
				if ok {
					cur, _ := e.K.Bid.Get(e.Ctx, joinKey(0, 1))
					nd.Assert("C17.site-bidder-is-the-recorded-one", c.S[0] == cur.Bidder)
					nd.Assert("C17.site-real-values", nd.And(c.U[0] == 0, c.U[1] == 1, c.S[0] == bidder, c.D[0].Equal(price), c.I[0].Equal(old.Coin.Amount)))
					nd.Assert("C17.site-before-commit", c.Seq == 0)
				}
			}
		}
	case 7:
		// settlement of a fixed-price or batch auction, with or without bids (an empty allocation is still a settlement)
		nb := nd.Pick("a.nBids", 2)
		isBatch := nd.Pick("a.batch", 2) == 1
		st := buildAuction(e, "a.", aSpec{id: 0, batch: isBatch, status: types.AuctionStatusStarted, nEnd: 1, nUsers: 1, allowAll: true, nBids: nb})
		setAuctionSeq(e, 1)
		nd.Assume(!st.base.EndTimes[0].After(now))
		if isBatch {
			nd.Assume(st.batchA.MaxExtendedRound == 0)
		}
		l.Clock = func() int {
			if getAuction(e, 0).GetStatus() != types.AuctionStatusStarted {
				return 1
			}
			return 0
		}
		err = e.K.BeginBlocker(e.Ctx)
		if !veto {
			nd.Assert("C17.site-settlement-succeeds", err == nil)
			c, ok := l.Last(method)
			nd.Assert("C17.site-called-once", ok && l.Count(method) == 1)
			if ok {
				nd.Assert("C17.site-real-values", c.U[0] == 0 && c.N == nb)
				nd.Assert("C17.site-before-commit", c.Seq == 0)
			}
		}
	}
	if veto {
		nd.Assert("C17.site-veto-fails-operation", err != nil)
		nd.Cover("site-veto")
	} else {
		nd.Cover("site-ok")
	}
	nd.Observe("err", err)
	_ = time.Second
}
