package props

import (
	"cosmossdk.io/collections"

	"github.com/tendermint/fundraising/x/fundraising/types"

	"verif/harness/env"
	"verif/harness/nd"
)

// assertRI asserts, on the state after an operation, every conjunct of the
// representation invariant RI (DESIGN §3) for one auction, reading only stored
// records and balances. Harnesses assume RI on the pre-state (the builder
// produces exactly the RI-states) and call this on the post-state: together
// with the base case (empty state; creation) that makes RI inductive, which is
// what lets one-step results speak about histories of any length.
// The escrow equalities (R5 sharpened) are asserted by the C01 groups; this
// covers the structural conjuncts.
func assertRI(e *env.Env, id uint64, label string) {
	a, err := e.K.Auction.Get(e.Ctx, id)
	nd.Assert(label+".R1.auction-stored-under-its-id", err == nil && a.GetId() == id)
	if err != nil {
		return
	}
	seq, _ := e.K.AuctionSeq.Peek(e.Ctx)
	nd.Assert(label+".R1.id-below-sequence", id < seq)
	nd.Assert(label+".R1.escrow-addresses-derived-from-id", a.GetSellingReserveAddress().Equals(types.SellingReserveAddress(id)) &&
		a.GetPayingReserveAddress().Equals(types.PayingReserveAddress(id)) && a.GetVestingReserveAddress().Equals(types.VestingReserveAddress(id)))
	typ, status := a.GetType(), a.GetStatus()
	nd.Assert(label+".R1.type-and-status-valid", (typ == types.AuctionTypeFixedPrice || typ == types.AuctionTypeBatch) &&
		status >= types.AuctionStatusStandBy && status <= types.AuctionStatusCancelled)
	// R2 terms
	nd.Assert(label+".R2.terms", nd.And(a.GetStartPrice().IsPositive(), a.GetSellingCoin().Amount.IsPositive(), a.GetSellingCoin().Denom != a.GetPayingCoinDenom()))
	ends := a.GetEndTimes()
	nd.Assert(label+".R3.has-end-time", len(ends) >= 1)
	if len(ends) == 0 {
		return
	}
	nd.Assert(label+".R3.first-end-after-start", ends[0].After(a.GetStartTime()))
	for i := 1; i < len(ends); i++ {
		nd.Assert(label+".R3.end-times-non-decreasing", !ends[i].Before(ends[i-1]))
	}
	if ba, ok := a.(*types.BatchAuction); ok {
		nd.Assert(label+".R2.batch-terms", nd.And(ba.MinBidPrice.IsPositive(), ba.ExtendedRoundRate.IsPositive(), ba.MaxExtendedRound <= 30))
		nd.Assert(label+".R3.rounds-bounded", uint32(len(ends)) <= ba.MaxExtendedRound+1)
		if status == types.AuctionStatusStandBy || status == types.AuctionStatusStarted || status == types.AuctionStatusCancelled {
			nd.Assert(label+".R2.matched-price-zero-until-settled", ba.MatchedPrice.IsZero())
		}
	} else {
		nd.Assert(label+".R3.fixed-price-has-one-end-time", len(ends) == 1)
	}
	// R4 schedule valid with respect to the first end time
	nd.Assert(label+".R4.schedule-valid", types.ValidateVestingSchedules(a.GetVestingSchedules(), ends[0]) == nil)
	// R6 bids
	bids := bidsOf(e, id)
	bidSeq, serr := e.K.BidSeq.Get(e.Ctx, id)
	if len(bids) > 0 {
		nd.Assert(label+".R6.bid-sequence-counts-bids", serr == nil && bidSeq == uint64(len(bids)))
	}
	if status == types.AuctionStatusStandBy || status == types.AuctionStatusCancelled {
		nd.Assert(label+".R5.no-bids-before-opening", len(bids) == 0)
	}
	for i, b := range bids {
		nd.Assert(label+".R6.bid-key-and-ids", b.AuctionId == id && b.Id == uint64(i+1))
		nd.Assert(label+".R6.bid-terms-positive", nd.And(b.Price.IsPositive(), b.Coin.Amount.IsPositive()))
		bidder, berr := sdkAddr(b.Bidder)
		nd.Assert(label+".R6.bidder-valid-and-canonical", berr == nil && bidder.String() == b.Bidder)
		if berr == nil {
			_, aerr := e.K.AllowedBidder.Get(e.Ctx, collections.Join(id, bidder))
			nd.Assert(label+".R6.bidder-allow-listed", aerr == nil)
		}
		if ba, ok := a.(*types.BatchAuction); ok {
			okType := (b.Type == types.BidTypeBatchWorth && b.Coin.Denom == a.GetPayingCoinDenom()) || (b.Type == types.BidTypeBatchMany && b.Coin.Denom == a.GetSellingCoin().Denom)
			nd.Assert(label+".R6.batch-bid-type-and-denom", okType)
			nd.Assert(label+".R6.batch-bid-price-at-least-minimum", b.Price.GTE(ba.MinBidPrice))
			if status == types.AuctionStatusStarted && len(a.GetEndTimes()) == 1 {
				nd.Assert(label+".R6.no-flag-before-first-end-time", !b.IsMatched)
			}
		} else {
			nd.Assert(label+".R6.fixed-bid", b.Type == types.BidTypeFixedPrice && (b.Coin.Denom == a.GetPayingCoinDenom() || b.Coin.Denom == a.GetSellingCoin().Denom) && nd.And(b.Price.Equal(a.GetStartPrice()), b.IsMatched))
		}
	}
	// R7 allow-list entries
	abs, _ := e.K.GetAllowedBiddersByAuction(e.Ctx, id)
	for _, ab := range abs {
		nd.Assert(label+".R7.allow-list-entry", ab.AuctionId == id && !ab.MaxBidAmount.IsNil() && nd.And(ab.MaxBidAmount.IsPositive()))
	}
	// R5 instalments per status
	qs := queuesOf(e, id)
	switch status {
	case types.AuctionStatusStandBy, types.AuctionStatusStarted, types.AuctionStatusCancelled:
		nd.Assert(label+".R5.no-instalments-before-settlement", len(qs) == 0)
	case types.AuctionStatusVesting:
		nd.Assert(label+".R5.vesting-has-one-instalment-per-schedule-entry", len(qs) == len(a.GetVestingSchedules()) && len(qs) > 0)
		if len(qs) > 0 {
			nd.Assert(label+".R5.vesting-last-instalment-unreleased", !qs[len(qs)-1].Released)
		}
		seenUnreleased := false
		for i, q := range qs {
			nd.Assert(label+".R5.instalment-fields", q.AuctionId == id && q.PayingCoin.Denom == a.GetPayingCoinDenom() && nd.And(!q.PayingCoin.Amount.IsNegative()))
			if i < len(a.GetVestingSchedules()) {
				nd.Assert(label+".R5.instalment-key-is-release-time", q.ReleaseTime.Equal(a.GetVestingSchedules()[i].ReleaseTime))
			}
			if !q.Released {
				seenUnreleased = true
			} else {
				nd.Assert(label+".R5.released-instalments-form-a-prefix", !seenUnreleased)
			}
		}
	case types.AuctionStatusFinished:
		for _, q := range qs {
			nd.Assert(label+".R5.finished-all-released", q.Released)
		}
	}
	// R8 matched-bid count
	n, nerr := e.K.MatchedBidsLen.Get(e.Ctx, id)
	if nerr == nil {
		nd.Assert(label+".R8.matched-count", typ == types.AuctionTypeBatch && n >= 0)
	}
	if fa, ok := a.(*types.FixedPriceAuction); ok {
		nd.Assert(label+".R5.remainder-nonnegative", !fa.RemainingSellingCoin.Amount.IsNegative() && fa.RemainingSellingCoin.Denom == a.GetSellingCoin().Denom)
	}
}
