package props

import (
	"cosmossdk.io/collections"

	fundraising "github.com/tendermint/fundraising/x/fundraising/module"
	"github.com/tendermint/fundraising/x/fundraising/types"

	"verif/harness/env"
	"verif/harness/nd"
)

func init() {
	register("H_C15_Genesis", H_C15_Genesis)
}

func nBidsOf(st *aState) int {
	if st == nil {
		return 0
	}
	return len(st.bids)
}

func nQueuesOf(st *aState) int {
	if st == nil {
		return 0
	}
	return len(st.queues)
}

// sameRecords compares every record of one auction in two environments.
func sameRecords(label string, a, b recSnap) {
	assertFrame(label, a, b)
}

// H_C15_Genesis: export -> validate -> import into an empty store -> compare,
// then one more block on both (DESIGN §6 C15).
func H_C15_Genesis() {
	now := nd.Time("now")
	e := env.New(now)
	setParams(e, "p.")
	sp := pickSpec("a.", 0)
	sp.nUsers = nd.Param("users", 2)
	st := buildAuction(e, "a.", sp)
	// a second, later auction with its own bid ids starting at 1 again (parameter second=0 turns it off)
	second := nd.Param("second", 1) == 1
	nAuctions := 1
	var stB *aState
	if second {
		stB = buildAuction(e, "b.", bystanderSpec("b.", 1))
		nAuctions = 2
	}
	setAuctionSeq(e, uint64(nAuctions))

	gs, err := fundraising.ExportGenesis(e.Ctx, e.K)
	nd.Assert("C15.export-succeeds", err == nil && gs != nil)
	if err != nil || gs == nil {
		return
	}
	nd.Assert("C15.export-lists-every-record", len(gs.AuctionList) == nAuctions && len(gs.BidList) == len(st.bids)+nBidsOf(stB) && len(gs.VestingQueueList) == len(st.queues)+nQueuesOf(stB))
	// (a) the module's own validation accepts what it exported
	// listed finding: the last matched-bid count of a batch auction in the middle of extended rounds is not part of the genesis
	vErr := gs.Validate()
	nd.Assert("C15.exported-genesis-validates", vErr == nil)
	nd.Observe("validate", vErr)

	// (b) import into an empty store yields the same state
	e2 := env.New(now)
	iErr := fundraising.InitGenesis(e2.Ctx, e2.K, *gs)
	nd.Assert("C15.import-succeeds", iErr == nil)
	if iErr != nil {
		return
	}
	r1, r2 := snapRecords(e, 0), snapRecords(e2, 0)
	knownLastLen = "C15-matchedlen-not-exported"
	sameRecords("C15.import", r1, r2)
	nd.Assert("C15.import-bid-counter", r1.hasSeq == r2.hasSeq && r1.bidSeq == r2.bidSeq)
	if second {
		b1, b2 := snapRecords(e, 1), snapRecords(e2, 1)
		sameRecords("C15.import-second-auction", b1, b2)
		nd.Assert("C15.import-bid-counter", b1.hasSeq == b2.hasSeq && b1.bidSeq == b2.bidSeq)
	}
	s1, _ := e.K.AuctionSeq.Peek(e.Ctx)
	s2, _ := e2.K.AuctionSeq.Peek(e2.Ctx)
	nd.Assert("C15.import-auction-sequence", s1 == s2)
	p1, p2 := getParams(e), getParams(e2)
	nd.Assert("C15.import-params", p1.ExtendedPeriod == p2.ExtendedPeriod && nd.And(p1.AuctionCreationFee.AmountOf(denomFee).Equal(p2.AuctionCreationFee.AmountOf(denomFee)),
		p1.PlaceBidFee.AmountOf(denomFee).Equal(p2.PlaceBidFee.AmountOf(denomFee))))
	nd.Cover("round-trip")

	// (c) continuation: the same later block on both (balances are bank genesis, copied here)
	cont := nd.Param("continuation", 1)
	if cont == 0 || (cont == 1 && !(sp.batch && sp.status == types.AuctionStatusStarted)) {
		return
	}
	for _, a := range trackedAccounts(0, 1) {
		for _, d := range []string{denomSell, denomPay, denomFee} {
			e2.SetBal(a, d, e.Bal(a, d))
		}
	}
	later := nd.Time("later")
	nd.Assume(!later.Before(now))
	e.SetTime(later)
	e2.SetTime(later)
	c1 := e.K.BeginBlocker(e.Ctx)
	c2 := e2.K.BeginBlocker(e2.Ctx)
	nd.Assert("C15.continuation-same-result", (c1 == nil) == (c2 == nil))
	if c1 == nil && c2 == nil {
		// a different outcome of the continuation is excused only when the imported count differs
		l1, _ := e.K.GetLastMatchedBidsLen(e.Ctx, 0)
		l2, _ := e2.K.GetLastMatchedBidsLen(e2.Ctx, 0)
		_ = l1
		_ = l2
		sameRecords("C15.continuation", snapRecords(e, 0), snapRecords(e2, 0))
		if second {
			sameRecords("C15.continuation-second-auction", snapRecords(e, 1), snapRecords(e2, 1))
		}
		nd.Cover("continuation")
	}
	_ = collections.Join[uint64, uint64]
	_ = types.ModuleName
}
