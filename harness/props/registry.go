// Package props holds the verification harnesses. Each harness is an ordinary
// Go function: the engine (/verif/engine) executes its go/ssa form
// symbolically; cmd/replay executes it natively against the real build with
// the inputs of a scenario file.
package props

// Registry maps harness names to functions for the native replay binary.
var Registry = map[string]func(){}

func register(name string, f func()) { Registry[name] = f }
