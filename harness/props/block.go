package props

import (
	"cosmossdk.io/math"
	sdk "github.com/cosmos/cosmos-sdk/types"

	"github.com/tendermint/fundraising/x/fundraising/types"

	"verif/harness/env"
	"verif/harness/nd"
)

func init() {
	register("H_Block", H_Block)
}

var allStatuses = [...]types.AuctionStatus{
	types.AuctionStatusStandBy, types.AuctionStatusStarted, types.AuctionStatusVesting,
	types.AuctionStatusFinished, types.AuctionStatusCancelled,
}

// pickSpec enumerates the concrete shape of one auction.
func pickSpec(prefix string, id uint64) aSpec {
	sp := aSpec{id: id, auctioneer: 0, nUsers: nd.Param("users", 2), allowAll: true}
	// narrow variants (parameter focus): an open auction with exactly fBids (2) bids of fUsers (1) bidders —
	// the shape in which per-bidder accumulation over several bids shows (1 = fixed price, 2 = batch)
	if f := nd.Param("focus", 0); f > 0 {
		sp.nUsers, sp.nBids, sp.nEnd, sp.status = nd.Param("fUsers", 1), nd.Param("fBids", 2), 1, types.AuctionStatusStarted
		sp.batch = f == 2
		sp.nSched = nd.Pick(prefix+"nSched", 2)
		if fs := nd.Param("fSched", -1); fs >= 0 {
			sp.nSched = fs
		}
		if sp.batch {
			if fe := nd.Param("fEnd", 0); fe > 0 {
				sp.nEnd = fe
			} else {
				sp.nEnd = nd.Pick(prefix+"nEnd", nd.Param("maxEnd", 2)) + 1
			}
			sp.hasMatchedLen = sp.nEnd >= 2
			sp.allMany = nd.Param("fMany", 0) == 1
		}
		return sp
	}
	sp.batch = nd.Pick(prefix+"batch", 2) == 1
	sp.status = allStatuses[nd.Pick(prefix+"status", 5)]
	maxSched := nd.Param("maxSched", 2)
	maxBids := nd.Param("maxBids", 2)
	sp.nEnd = 1
	switch sp.status {
	case types.AuctionStatusStandBy, types.AuctionStatusCancelled:
		sp.nSched = nd.Pick(prefix+"nSched", maxSched+1)
	case types.AuctionStatusStarted:
		sp.nSched = nd.Pick(prefix+"nSched", maxSched+1)
		sp.nBids = nd.Pick(prefix+"nBids", maxBids+1)
		if sp.batch {
			sp.nEnd = nd.Pick(prefix+"nEnd", nd.Param("maxEnd", 2)) + 1
			// R8: the matched-bid count is stored at every end time, so it exists exactly
			// when the auction has already been through one
			sp.hasMatchedLen = sp.nEnd >= 2
		}
	case types.AuctionStatusVesting:
		sp.nSched = nd.Pick(prefix+"nSched", maxSched) + 1
		sp.nReleased = nd.Pick(prefix+"nReleased", sp.nSched) // last one unreleased
		sp.nBids = nd.Pick(prefix+"nBids", 2)
		sp.hasMatchedLen = sp.batch
	case types.AuctionStatusFinished:
		sp.nSched = nd.Pick(prefix+"nSched", maxSched+1)
		sp.nBids = nd.Pick(prefix+"nBids", 2)
		sp.hasMatchedLen = sp.batch
	}
	return sp
}

type balSnap struct {
	accts  []sdk.AccAddress
	denoms []string
	vals   [][]math.Int
}

func trackedAccounts(ids ...uint64) []sdk.AccAddress {
	var out []sdk.AccAddress
	for _, u := range userAddrs {
		out = append(out, addr(u))
	}
	out = append(out, poolAddr())
	for _, id := range ids {
		out = append(out, types.SellingReserveAddress(id), types.PayingReserveAddress(id), types.VestingReserveAddress(id))
	}
	return out
}

func snapshot(e *env.Env, accts []sdk.AccAddress) *balSnap {
	s := &balSnap{accts: accts, denoms: []string{denomSell, denomPay, denomFee}}
	for _, a := range accts {
		row := make([]math.Int, len(s.denoms))
		for j, d := range s.denoms {
			row[j] = e.Bal(a, d)
		}
		s.vals = append(s.vals, row)
	}
	return s
}

func (s *balSnap) get(a sdk.AccAddress, denom string) nd.Z {
	for i, x := range s.accts {
		if x.Equals(a) {
			for j, d := range s.denoms {
				if d == denom {
					return nd.ZInt(s.vals[i][j])
				}
			}
		}
	}
	panic("balSnap: untracked account/denom")
}

func (s *balSnap) total(denom string) nd.Z {
	t := nd.ZOf(0)
	for i := range s.accts {
		for j, d := range s.denoms {
			if d == denom {
				t = t.Add(nd.ZInt(s.vals[i][j]))
			}
		}
	}
	return t
}

// H_Block: one block of processing from an arbitrary RI-state holding one
// auction of any type and status, at an arbitrary block time.
// Assertion groups: C07 (liveness), C08 (lifecycle/timing), C01 (escrow
// equalities), C09 (vesting split and release), C13 (extension rule),
// C02 (zero-sum, fixed-price settlement accounting), C19 (terms unchanged).
func H_Block() {
	now := nd.Time("now")
	if nd.Param("overflow", 0) == 1 {
		// extreme-amount tier: the library's 256/315-bit overflow panics are explored
		nd.Option("overflow")
	}
	e := env.New(now)
	setParams(e, "p.")
	sp := pickSpec("a.", tid())
	st := buildAuction(e, "a.", sp)
	setAuctionSeq(e, tid()+1)
	pre := snapshot(e, trackedAccounts(tid()))
	preA := st.auction()
	if nd.Param("overflow", 0) == 1 {
		// listed finding: with some amount or price at or above 2^128 the 18-decimal arithmetic of matching/settlement can exceed the library's limits
		nd.Known("C07-overflow-with-amounts-above-2^128", anyHuge())
	}
	lastEnd := st.base.EndTimes[len(st.base.EndTimes)-1]
	auctioneer := addr(st.base.Auctioneer)

	var err error
	panicked := nd.Try(func() { err = e.K.BeginBlocker(e.Ctx) })
	nd.Assert("C07.block-does-not-panic", !panicked)
	nd.ClearKnown()
	if panicked {
		return
	}
	nd.Assert("C07.block-returns-nil", err == nil)
	nd.Observe("err", err)
	if err != nil {
		nd.Cover("block-error")
		return
	}
	post := snapshot(e, trackedAccounts(tid()))
	a := getAuction(e, tid())
	ps := a.GetStatus()
	nd.Observe("status", int64(ps))

	started := !st.base.StartTime.After(now)
	ended := !lastEnd.After(now)
	extended := len(a.GetEndTimes()) == sp.nEnd+1
	settled := ps == types.AuctionStatusVesting || ps == types.AuctionStatusFinished

	// ---- C08: lifecycle relation and timing ----
	nd.Assert("C08.endtimes-grow-by-at-most-one", len(a.GetEndTimes()) == sp.nEnd || extended)
	switch sp.status {
	case types.AuctionStatusStandBy:
		nd.Assert("C08.waiting-opens-iff-start-reached", nd.Iff(ps != types.AuctionStatusStandBy, started))
		nd.Assert("C08.waiting-moves-forward", ps == types.AuctionStatusStandBy || ps == types.AuctionStatusStarted || settled)
		// literal reading: an auction whose end time has also been reached settles (or extends) in this block
		nd.Assert("C08.waiting-past-end-settles", nd.Implies(nd.And(started, ended), nd.Or(settled, extended)))
		nd.Cover("block-waiting")
	case types.AuctionStatusStarted:
		nd.Assert("C08.open-settles-iff-end-reached", nd.Iff(nd.Or(settled, extended), ended))
		nd.Assert("C08.open-moves-forward", ps == types.AuctionStatusStarted || settled)
		nd.Assert("C08.extension-only-batch", !extended || sp.batch)
		nd.Assert("C08.no-extension-and-settlement", !(extended && settled))
		if settled {
			nd.Assert("C08.vesting-iff-schedule", (ps == types.AuctionStatusVesting) == (sp.nSched > 0))
			nd.Cover("block-settled")
		}
	case types.AuctionStatusVesting:
		nd.Assert("C08.vesting-moves-forward", settled)
		nd.Cover("block-vesting")
	case types.AuctionStatusFinished, types.AuctionStatusCancelled:
		nd.Assert("C08.terminal-permanent", ps == sp.status)
		nd.Cover("block-terminal")
	}

	// ---- C11 / C19: a block never deletes a bid, changes its identity or lowers its terms (flags may change) ----
	postBids := bidsOf(e, tid())
	nd.Assert("C11.block-keeps-every-bid", len(postBids) == len(st.bids))
	if len(postBids) == len(st.bids) {
		for i, b := range st.bids {
			nb := postBids[i]
			nd.Assert("C19.block-bid-identity-kept", nb.Id == b.Id && nb.AuctionId == b.AuctionId && nb.Bidder == b.Bidder && nb.Type == b.Type && nb.Coin.Denom == b.Coin.Denom)
			nd.Assert("C11.block-bid-terms-kept", nd.And(nb.Price.Equal(b.Price), nb.Coin.Amount.Equal(b.Coin.Amount)))
		}
	}

	// ---- C19 (terms): agreed terms never change ----
	assertTermsUnchanged("C19.terms", preA, a, sp.nEnd)

	// ---- C01: escrows hold exactly what the records owe ----
	justSettled := sp.status != types.AuctionStatusVesting && sp.status != types.AuctionStatusFinished && settled
	os, op, ov := owed(e, tid())
	donS, donP, donV := nd.ZInt(st.donS), nd.ZInt(st.donP), nd.ZInt(st.donV)
	if justSettled {
		// settlement sweeps the whole selling and paying escrow (third-party coins included)
		donS, donP = nd.ZOf(0), nd.ZOf(0)
	}
	nd.Assert("C01.selling-escrow-exact", post.get(st.sellingAddr(), denomSell).EQ(os.Add(donS)))
	nd.Assert("C01.paying-escrow-exact", post.get(st.payingAddr(), denomPay).EQ(op.Add(donP)))
	nd.Assert("C01.vesting-escrow-exact", post.get(st.vestingAddr(), denomPay).EQ(ov.Add(donV)))

	// ---- C02: zero-sum per denomination ----
	nd.Assert("C02.zero-sum-selling", post.total(denomSell).EQ(pre.total(denomSell)))
	nd.Assert("C02.zero-sum-paying", post.total(denomPay).EQ(pre.total(denomPay)))
	nd.Assert("C02.zero-sum-fee", post.total(denomFee).EQ(pre.total(denomFee)))

	// ---- C02: once settled, nothing is left in the selling and paying escrows (whichever settlement branch ran) ----
	if justSettled {
		nd.Assert("C02.nothing-left-in-escrow-after-settlement", nd.And(post.get(st.sellingAddr(), denomSell).IsZero(), post.get(st.payingAddr(), denomPay).IsZero()))
	}

	// ---- C09 (a): split of the proceeds at settlement ----
	if justSettled {
		qs := queuesOf(e, tid())
		proceeds := post.get(st.vestingAddr(), denomPay).Sub(pre.get(st.vestingAddr(), denomPay))
		if sp.nSched == 0 {
			nd.Assert("C09.no-schedule-no-instalments", len(qs) == 0)
			nd.Assert("C09.no-schedule-nothing-vested", proceeds.IsZero())
		} else {
			nd.Assert("C09.one-instalment-per-schedule-entry", len(qs) == sp.nSched)
			if len(qs) == sp.nSched {
				sum := nd.ZOf(0)
				for i, q := range qs {
					w := nd.ZDec(st.base.VestingSchedules[i].Weight)
					amt := nd.ZInt(q.PayingCoin.Amount)
					nd.Assert("C09.instalment-nonnegative", amt.GE(nd.ZOf(0)))
					nd.Assert("C09.instalment-unreleased", !q.Released)
					nd.Assert("C09.instalment-release-time", q.ReleaseTime.Equal(st.base.VestingSchedules[i].ReleaseTime))
					nd.Assert("C09.instalment-denom-auctioneer", q.PayingCoin.Denom == denomPay && q.Auctioneer == st.base.Auctioneer && q.AuctionId == tid())
					if i < sp.nSched-1 {
						nd.Assert("C09.instalment-is-floor-share", amt.EQ(proceeds.Mul(w).FloorDiv(zS())))
					}
					sum = sum.Add(amt)
				}
				nd.Assert("C09.instalments-sum-to-proceeds", sum.EQ(proceeds))
			}
			// C02: nothing is stranded — whatever went into the vesting escrow is owed to the auctioneer by some instalment
			{
				owedSum := nd.ZOf(0)
				for _, q := range qs {
					owedSum = owedSum.Add(nd.ZInt(q.PayingCoin.Amount))
				}
				nd.Assert("C02.vested-proceeds-all-owed-to-auctioneer", owedSum.EQ(proceeds))
			}
		}
		// the proceeds are everything the paying escrow held minus what went back to bidders
		if !sp.batch {
			// fixed price: nothing is refunded, every bid pays its whole reservation
			all := pre.get(st.payingAddr(), denomPay)
			if sp.nSched == 0 {
				nd.Assert("C02.fixed-proceeds-to-auctioneer", post.get(auctioneer, denomPay).Sub(pre.get(auctioneer, denomPay)).EQ(all))
			} else {
				nd.Assert("C02.fixed-proceeds-to-vesting", proceeds.EQ(all))
			}
			// allocations: each bidder receives the sum of their bids' quantities, the auctioneer the rest
			totalAlloc := nd.ZOf(0)
			totalGot := nd.ZOf(0)
			for u := 1; u <= sp.nUsers; u++ {
				want := nd.ZOf(0)
				for _, b := range st.bids {
					if b.Bidder == user(u) {
						want = want.Add(sellAmtZ(b))
					}
				}
				totalAlloc = totalAlloc.Add(want)
				got := post.get(addr(user(u)), denomSell).Sub(pre.get(addr(user(u)), denomSell))
				totalGot = totalGot.Add(got)
				nd.Assert("C02.fixed-bidder-receives-allocation", got.EQ(want))
				nd.Assert("C05.fixed-bidder-receives-no-more-than-asked", got.LE(want))
				nd.Assert("C06.accepted-bids-delivered-in-full-never-scaled", got.EQ(want))
			}
			nd.Assert("C05.total-distributed-within-supply", totalGot.LE(nd.ZInt(st.offered())))
			nd.Assert("C06.never-oversells", totalGot.LE(nd.ZInt(st.offered())))
			nd.Assert("C02.fixed-auctioneer-gets-unsold", post.get(auctioneer, denomSell).Sub(pre.get(auctioneer, denomSell)).EQ(pre.get(st.sellingAddr(), denomSell).Sub(totalAlloc)))
		}
	}

	// ---- C09 (b): release of instalments ----
	if sp.status == types.AuctionStatusVesting {
		qs := queuesOf(e, tid())
		nd.Assert("C09.instalments-kept", len(qs) == sp.nSched)
		paid := nd.ZOf(0)
		allReleased := true
		if len(qs) == sp.nSched {
			for i, q := range qs {
				was := st.queues[i]
				due := !was.ReleaseTime.After(now)
				nd.Assert("C09.released-iff-due-or-was", nd.Iff(q.Released, nd.Or(was.Released, due)))
				// C16: the published flag says "released" exactly for the instalments that have been paid (a due
				// instalment of amount zero has been paid in full)
				nd.Assert("C16.instalment-flagged-released-iff-paid", nd.Iff(q.Released, nd.Or(was.Released, due)))
				nd.Assert("C09.instalment-amount-unchanged", q.PayingCoin.Amount.Equal(was.PayingCoin.Amount))
				paidNow := nd.And(due, !was.Released)
				paid = paid.Add(nd.IteZ(paidNow, nd.ZInt(was.PayingCoin.Amount), nd.ZOf(0)))
				if !q.Released {
					allReleased = false
				}
			}
		}
		nd.Assert("C09.auctioneer-receives-due-instalments", post.get(auctioneer, denomPay).Sub(pre.get(auctioneer, denomPay)).EQ(paid))
		nd.Assert("C09.finished-iff-all-released", (ps == types.AuctionStatusFinished) == allReleased)
		nd.Assert("C08.finishes-when-last-instalment-released", (ps == types.AuctionStatusFinished) == allReleased)
	}

	// ---- C13: extension rule ----
	if sp.batch && sp.status == types.AuctionStatusStarted {
		ba := a.(*types.BatchAuction)
		// RI: the matched price is published at settlement only; while the auction is open it stays zero
		if ps == types.AuctionStatusStarted {
			nd.Assert("C16.open-auction-publishes-no-matched-price", ba.MatchedPrice.IsZero())
		}
		// whichever branch settled the auction (no rounds left, or the rate rule): the published price is zero
		// exactly when nothing was sold, and is what the winners were charged per coin (within one unit per bid)
		if justSettled {
			soldNow := nd.ZOf(0)
			published := nd.ZDec(ba.MatchedPrice)
			for u := 1; u <= sp.nUsers; u++ {
				got := post.get(addr(user(u)), denomSell).Sub(pre.get(addr(user(u)), denomSell))
				soldNow = soldNow.Add(got)
				nMine, reservedMine := 0, nd.ZOf(0)
				for _, b := range st.bids {
					if b.Bidder == user(u) {
						nMine++
						reservedMine = reservedMine.Add(payAmtZ(b))
					}
				}
				paidU := reservedMine.Sub(post.get(addr(user(u)), denomPay).Sub(pre.get(addr(user(u)), denomPay)))
				nd.Assert("C16.block-published-price-is-paid-price", nd.Implies(got.IsPos(), nd.And(
					paidU.Mul(zS()).GE(published.Mul(got)), paidU.Mul(zS()).LT(published.Mul(got).Add(zS().Mul(nd.ZOf(int64(nMine))))))))
			}
			nd.Assert("C16.block-published-price-zero-iff-nothing-sold", nd.Iff(published.IsZero(), soldNow.IsZero()))
		}
		round := uint32(sp.nEnd - 1)
		if extended {
			period := getParams(e).ExtendedPeriod
			want := lastEnd.AddDate(0, 0, int(period))
			nd.Assert("C13.extension-appends-one-period", a.GetEndTimes()[sp.nEnd].Equal(want))
			nd.Assert("C13.rounds-bounded", uint32(len(a.GetEndTimes())) <= ba.MaxExtendedRound+1)
			nd.Cover("block-extended")
		}
		if ended {
			nd.Assert("C13.no-rounds-left-settles", nd.Implies(round == st.batchA.MaxExtendedRound, settled))
			cur, lerr := e.K.GetLastMatchedBidsLen(e.Ctx, tid())
			nd.Assert("C13.count-stored", lerr == nil)
			// the count stored for the next comparison is the number of bids matched now
			flagged := int64(0)
			for _, b := range bidsOf(e, tid()) {
				if b.IsMatched {
					flagged++
				}
			}
			nd.Assert("C13.stored-count-is-current-matched-count", cur == flagged)
			L := nd.ZOf(st.lastLen)
			C := nd.ZOf(cur)
			rate := nd.ZDec(st.batchA.ExtendedRoundRate)
			hasRounds := round < st.batchA.MaxExtendedRound
			mustExtend := nd.Or(L.IsZero(), L.Sub(C).Mul(zS()).GE(rate.Mul(L)))
			mustSettle := nd.And(L.IsPos(), L.Sub(C).Mul(zS()).LE(rate.Sub(nd.ZOf(1)).Mul(L)))
			nd.Assert("C13.extends-when-rule-says", nd.Implies(nd.And(hasRounds, mustExtend), extended))
			nd.Assert("C13.settles-when-rule-says", nd.Implies(nd.And(hasRounds, mustSettle), settled))
		}
	}
	// ---- RI is preserved by the block (inductive step) ----
	assertRI(e, tid(), "RI.block")
}

func getParams(e *env.Env) types.Params {
	p, err := e.K.Params.Get(e.Ctx)
	if err != nil {
		panic(err)
	}
	return p
}

// assertTermsUnchanged: C19 — the agreed terms of an auction are immutable.
func assertTermsUnchanged(label string, before, after types.AuctionI, nEnd int) {
	nd.Assert(label+".identity", after.GetId() == before.GetId() && after.GetType() == before.GetType() &&
		after.GetAuctioneer().Equals(before.GetAuctioneer()) && after.GetPayingCoinDenom() == before.GetPayingCoinDenom() &&
		after.GetSellingCoin().Denom == before.GetSellingCoin().Denom)
	nd.Assert(label+".escrow-addresses", after.GetSellingReserveAddress().Equals(before.GetSellingReserveAddress()) &&
		after.GetPayingReserveAddress().Equals(before.GetPayingReserveAddress()) &&
		after.GetVestingReserveAddress().Equals(before.GetVestingReserveAddress()))
	nd.Assert(label+".offered-and-price", nd.And(after.GetSellingCoin().Amount.Equal(before.GetSellingCoin().Amount),
		after.GetStartPrice().Equal(before.GetStartPrice()), after.GetStartTime().Equal(before.GetStartTime())))
	be, ae := before.GetEndTimes(), after.GetEndTimes()
	okEnds := len(ae) >= len(be)
	if okEnds {
		for i := range be {
			nd.Assert(label+".earlier-end-times", ae[i].Equal(be[i]))
		}
	}
	nd.Assert(label+".end-times-kept", okEnds)
	bs, as := before.GetVestingSchedules(), after.GetVestingSchedules()
	nd.Assert(label+".schedule-length", len(bs) == len(as))
	if len(bs) == len(as) {
		for i := range bs {
			nd.Assert(label+".schedule-entry", nd.And(as[i].ReleaseTime.Equal(bs[i].ReleaseTime), as[i].Weight.Equal(bs[i].Weight)))
		}
	}
	if bb, ok := before.(*types.BatchAuction); ok {
		ab, ok2 := after.(*types.BatchAuction)
		nd.Assert(label+".batch-type-kept", ok2)
		if ok2 {
			nd.Assert(label+".batch-settings", nd.And(ab.MinBidPrice.Equal(bb.MinBidPrice), ab.ExtendedRoundRate.Equal(bb.ExtendedRoundRate), ab.MaxExtendedRound == bb.MaxExtendedRound))
		}
	}
}
