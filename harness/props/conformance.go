package props

import (
	"cosmossdk.io/math"

	"verif/harness/nd"
)

func init() {
	register("H_Conformance", H_Conformance)
}

// H_Conformance: validation of the engine's arithmetic intrinsics. Boundary
// and odd constants are pushed through every cosmossdk.io/math operation the
// module uses; the engine computes the results with its SMT-side formulas
// (constant folding of the same term constructors that build symbolic terms)
// and the witness replay compares every observed value with what the real
// library computes natively. A second part does the same with symbolic
// operands pinned to the constants by assumptions, so that the solver's model
// evaluation of the non-folded terms is compared as well.
func H_Conformance() {
	decs := []string{"0", "1", "-1", "0.5", "-0.5", "1.5", "2.5", "-2.5", "0.000000000000000001", "0.999999999999999999",
		"0.333333333333333333", "0.666666666666666667", "3", "1000000000000.123456789", "-7.000000000000000005",
		"0.000000000000000005", "123456789012345678901234567890.987654321098765432"}
	ints := []string{"0", "1", "-1", "2", "3", "7", "-7", "1000000000000000000", "999999999999999999", "340282366920938463463374607431768211455", "-340282366920938463463374607431768211455"}
	var ds []math.LegacyDec
	for _, s := range decs {
		ds = append(ds, math.LegacyMustNewDecFromStr(s))
	}
	var is []math.Int
	for _, s := range ints {
		v, ok := math.NewIntFromString(s)
		if !ok {
			panic("bad int literal")
		}
		is = append(is, v)
	}
	for i, a := range ds {
		p := "d" + itoa(i)
		nd.Observe(p+".ceil", a.Ceil())
		nd.Observe(p+".trunc", a.TruncateInt())
		nd.Observe(p+".round", a.RoundInt())
		nd.Observe(p+".neg", a.Neg())
		nd.Observe(p+".str", math.LegacyMustNewDecFromStr(a.String()))
		nd.Observe(p+".ispos", a.IsPositive())
		nd.Observe(p+".isnil", a.IsNil())
		for j, b := range ds {
			q := p + "x" + itoa(j)
			nd.Observe(q+".mul", a.Mul(b))
			nd.Observe(q+".mult", a.MulTruncate(b))
			nd.Observe(q+".add", a.Add(b))
			nd.Observe(q+".sub", a.Sub(b))
			nd.Observe(q+".lt", a.LT(b))
			nd.Observe(q+".gte", a.GTE(b))
			nd.Observe(q+".gt", a.GT(b))
			nd.Observe(q+".lte", a.LTE(b))
			if !b.IsZero() {
				nd.Observe(q+".quo", a.Quo(b))
				nd.Observe(q+".quot", a.QuoTruncate(b))
			}
		}
		for j, n := range is {
			if j < 9 {
				nd.Observe(p+"i"+itoa(j)+".mulint", a.MulInt(n))
			}
		}
	}
	for i, a := range is {
		p := "i" + itoa(i)
		nd.Observe(p+".todec", math.LegacyNewDecFromInt(a))
		nd.Observe(p+".isneg", a.IsNegative())
		nd.Observe(p+".ispos", a.IsPositive())
		nd.Observe(p+".isnil", a.IsNil())
		nd.Observe(p+".sign", a.Sign())
		nd.Observe(p+".str", a.String())
		for j, b := range is {
			if j >= 9 || i >= 9 {
				continue
			}
			q := p + "x" + itoa(j)
			nd.Observe(q+".add", a.Add(b))
			nd.Observe(q+".sub", a.Sub(b))
			nd.Observe(q+".mul", a.Mul(b))
			nd.Observe(q+".min", math.MinInt(a, b))
			nd.Observe(q+".gt", a.GT(b))
			nd.Observe(q+".gte", a.GTE(b))
			nd.Observe(q+".lt", a.LT(b))
			nd.Observe(q+".lte", a.LTE(b))
			nd.Observe(q+".eq", a.Equal(b))
			if !b.IsZero() {
				nd.Observe(q+".quo", a.Quo(b))
				nd.Observe(q+".mod", a.Mod(b))
			}
		}
	}
	// constructors
	nd.Observe("c.newdec", math.LegacyNewDec(-42))
	nd.Observe("c.newdecprec", math.LegacyNewDecWithPrec(12345, 3))
	nd.Observe("c.onedec", math.LegacyOneDec())
	nd.Observe("c.zerodec", math.LegacyZeroDec())
	nd.Observe("c.newint", math.NewInt(-9007199254740993))
	nd.Observe("c.zeroint", math.ZeroInt())
	// symbolic operands pinned to constants: the non-folded terms are evaluated by the solver
	x, y := nd.DecS("x", 200), nd.DecS("y", 200)
	k := nd.Pick("pin", 6)
	pins := [][2]string{{"2.5", "0.5"}, {"-7.000000000000000005", "0.333333333333333333"}, {"0.000000000000000005", "0.5"},
		{"1000000000000.123456789", "-0.666666666666666667"}, {"1.5", "3"}, {"0.999999999999999999", "0.999999999999999999"}}
	nd.Assume(x.Equal(math.LegacyMustNewDecFromStr(pins[k][0])))
	nd.Assume(y.Equal(math.LegacyMustNewDecFromStr(pins[k][1])))
	nd.Observe("s.mul", x.Mul(y))
	nd.Observe("s.mult", x.MulTruncate(y))
	nd.Observe("s.quo", x.Quo(y))
	nd.Observe("s.quot", x.QuoTruncate(y))
	nd.Observe("s.ceil", x.Ceil())
	nd.Observe("s.trunc", x.TruncateInt())
	nd.Observe("s.round", x.RoundInt())
	nd.Observe("s.ceilmul", x.Mul(y).Ceil().TruncateInt())
	nd.Cover("pinned-" + itoa(k))
}
