package props

import (
	"time"

	"cosmossdk.io/collections"
	"cosmossdk.io/math"
	sdk "github.com/cosmos/cosmos-sdk/types"

	"github.com/tendermint/fundraising/x/fundraising/types"

	"verif/harness/env"
	"verif/harness/nd"
)

// aSpec is the concrete shape of one auction in a symbolic RI-state (DESIGN §3).
type aSpec struct {
	id         uint64
	batch      bool
	status     types.AuctionStatus
	auctioneer int // index into the user pool
	nBids      int
	nSched     int // vesting schedule entries (= instalments when vesting/finished)
	nEnd       int // number of end times
	nUsers     int // candidate bidders are users 1..nUsers
	allowAll   bool
	// for vesting status: number of instalments already released (prefix)
	nReleased int
	// finished with a schedule: all released
	hasMatchedLen bool
	// flagsFalse: batch bids start unflagged (instead of arbitrary provisional flags)
	flagsFalse bool
	// allMany: every batch bid is a quantity bid (shape restriction of narrow harness variants)
	allMany bool
}

// aState is what the builder produced: the records stored for the auction and
// the specification-side ghost quantities.
type aState struct {
	sp       aSpec
	prefix   string
	base     *types.BaseAuction
	fixed    *types.FixedPriceAuction
	batchA   *types.BatchAuction
	bids     []types.Bid
	allowed  []bool     // per user index
	caps     []math.Int // per user index
	queues   []types.VestingQueue
	donS     math.Int
	donP     math.Int
	donV     math.Int
	reserved nd.Z // Σ payAmt(bid)
	sold     nd.Z // Σ sellAmt(bid)   (fixed price)
	lastLen  int64
}

func (st *aState) auction() types.AuctionI {
	if st.sp.batch {
		return st.batchA
	}
	return st.fixed
}

func (st *aState) sellingAddr() sdk.AccAddress { return types.SellingReserveAddress(st.sp.id) }
func (st *aState) payingAddr() sdk.AccAddress  { return types.PayingReserveAddress(st.sp.id) }
func (st *aState) vestingAddr() sdk.AccAddress { return types.VestingReserveAddress(st.sp.id) }
func (st *aState) offered() math.Int           { return st.base.SellingCoin.Amount }

func statusHasBids(s types.AuctionStatus) bool {
	return s == types.AuctionStatusStarted || s == types.AuctionStatusVesting || s == types.AuctionStatusFinished
}

// buildAuction stores one auction with its bids, allow-list, instalments and
// escrow balances such that the representation invariant RI holds, every
// quantity symbolic.
func buildAuction(e *env.Env, prefix string, sp aSpec) *aState {
	st := &aState{sp: sp, prefix: prefix}
	base := newBaseAuction(prefix, auctionSpec{id: sp.id, batch: sp.batch, status: sp.status,
		auctioneer: user(sp.auctioneer), nSchedules: sp.nSched, nEndTimes: sp.nEnd})
	st.base = base
	st.allowed = make([]bool, len(userAddrs))
	st.caps = make([]math.Int, len(userAddrs))
	st.reserved = nd.ZOf(0)
	st.sold = nd.ZOf(0)

	var minBid math.LegacyDec
	if sp.batch {
		minBid = posDec(prefix + "minBidPrice")
		maxRound := uint32(nd.IntRange(prefix+"maxRound", 0, 30))
		nd.Assume(uint32(sp.nEnd) <= maxRound+1) // R3
		rate := posDec(prefix + "rate")
		st.batchA = types.NewBatchAuction(base, minBid, math.LegacyZeroDec(), maxRound, rate)
	}

	// allow-list (R7) — every bidder with a bid is listed (R6)
	for u := 1; u <= sp.nUsers; u++ {
		listed := sp.allowAll
		if !listed {
			listed = nd.Pick(prefix+"allowed"+itoa(u), 2) == 1
		}
		st.allowed[u] = listed
		if listed {
			st.caps[u] = posInt(prefix + "cap" + itoa(u))
			setAllowed(e, sp.id, user(u), st.caps[u])
		}
	}

	// bids (R6)
	nb := 0
	if statusHasBids(sp.status) {
		nb = sp.nBids
	}
	for i := 0; i < nb; i++ {
		bp := prefix + "bid" + itoa(i) + "."
		owner := 1
		if sp.nUsers > 1 {
			owner = nd.Pick(bp+"owner", sp.nUsers) + 1
		}
		if !st.allowed[owner] {
			nd.Assume(false) // R6: bidder must be allow-listed
		}
		// RI R6: stored bidder strings are canonical (PlaceBid stores AccAddress.String(); proved inductive by
		// H_PlaceBid "C10.bid-bidder-stored-canonically"). Parameter spellings=1 re-creates the pre-fix state space
		// (a7d... "fix: store bidder addresses in their canonical spelling") for regression experiments only.
		ownerStr := user(owner)
		if nd.Param("spellings", 0) == 1 && nd.Pick(bp+"upper", 2) == 1 {
			ownerStr = userUpper(owner)
		}
		var b types.Bid
		if sp.batch {
			typ := types.BidTypeBatchWorth
			denom := denomPay
			if sp.allMany || nd.Pick(bp+"many", 2) == 1 {
				typ = types.BidTypeBatchMany
				denom = denomSell
			}
			price := posDec(bp + "price")
			nd.Assume(price.GTE(minBid))
			// flags are written by the matching at an end time only: before the first one every flag is still false
			flag := false
			if !sp.flagsFalse && (sp.nEnd >= 2 || sp.status != types.AuctionStatusStarted) {
				flag = nd.Bool(bp + "matched")
			}
			b = types.Bid{AuctionId: sp.id, Id: uint64(i + 1), Bidder: ownerStr, Type: typ, Price: price,
				Coin: sdk.NewCoin(denom, posInt(bp+"amt")), IsMatched: flag}
		} else {
			denom := denomPay
			if nd.Pick(bp+"sellDenom", 2) == 1 {
				denom = denomSell
			}
			b = types.Bid{AuctionId: sp.id, Id: uint64(i + 1), Bidder: ownerStr, Type: types.BidTypeFixedPrice,
				Price: base.StartPrice, Coin: sdk.NewCoin(denom, posInt(bp+"amt")), IsMatched: true}
		}
		setBid(e, b)
		st.bids = append(st.bids, b)
		st.reserved = st.reserved.Add(payAmtZ(b))
		st.sold = st.sold.Add(sellAmtZ(b))
	}
	if nb > 0 {
		setBidSeq(e, sp.id, uint64(nb))
	}

	// third-party donations: any amount below 2^64 in the extreme-amount tier (they only add slack)
	donBits := amtBits()
	if donBits > 128 {
		donBits = 64
	}
	st.donS, st.donP, st.donV = nd.IntN(prefix+"donS", donBits), nd.IntN(prefix+"donP", donBits), nd.IntN(prefix+"donV", donBits)
	if amtBits() > 128 {
		// reachable states only: what was reserved for the recorded bids fitted the bank's 256-bit amounts
		nd.Assume(st.reserved.LT(nd.ZStr("28948022309329048855892746252171976963317496166410141009864396001978282409984")))
		nd.Assume(st.sold.LT(nd.ZStr("28948022309329048855892746252171976963317496166410141009864396001978282409984")))
	}
	zero := math.ZeroInt()
	owedS, owedP, owedV := zero, zero, zero

	switch sp.status {
	case types.AuctionStatusStandBy, types.AuctionStatusStarted:
		owedS = base.SellingCoin.Amount
		if sp.status == types.AuctionStatusStarted {
			owedP = st.reserved.Int()
		}
	case types.AuctionStatusVesting:
		// instalments: keys = the schedule's release times; released ones form a prefix; last unreleased
		sum := nd.ZOf(0)
		for i := 0; i < sp.nSched; i++ {
			q := types.VestingQueue{AuctionId: sp.id, Auctioneer: base.Auctioneer,
				PayingCoin:  sdk.NewCoin(denomPay, nonnegInt(prefix+"inst"+itoa(i))),
				ReleaseTime: base.VestingSchedules[i].ReleaseTime, Released: i < sp.nReleased}
			st.queues = append(st.queues, q)
			if !q.Released {
				sum = sum.Add(nd.ZInt(q.PayingCoin.Amount))
			}
			setQueue(e, q)
		}
		owedV = sum.Int()
	case types.AuctionStatusFinished:
		for i := 0; i < sp.nSched; i++ {
			q := types.VestingQueue{AuctionId: sp.id, Auctioneer: base.Auctioneer,
				PayingCoin:  sdk.NewCoin(denomPay, nonnegInt(prefix+"inst"+itoa(i))),
				ReleaseTime: base.VestingSchedules[i].ReleaseTime, Released: true}
			st.queues = append(st.queues, q)
			setQueue(e, q)
		}
	}

	if sp.batch {
		if sp.hasMatchedLen {
			st.lastLen = nd.IntRange(prefix+"lastLen", 0, 1000)
			if err := e.K.MatchedBidsLen.Set(e.Ctx, sp.id, st.lastLen); err != nil {
				panic(err)
			}
		}
		setAuction(e, st.batchA)
	} else {
		remaining := zero
		switch sp.status {
		case types.AuctionStatusStandBy:
			remaining = base.SellingCoin.Amount
		case types.AuctionStatusStarted, types.AuctionStatusVesting, types.AuctionStatusFinished:
			nd.Assume(st.sold.LE(nd.ZInt(base.SellingCoin.Amount)))
			remaining = nd.ZInt(base.SellingCoin.Amount).Sub(st.sold).Int()
		}
		st.fixed = types.NewFixedPriceAuction(base, sdk.NewCoin(denomSell, remaining))
		setAuction(e, st.fixed)
	}

	e.SetBal(st.sellingAddr(), denomSell, owedS.Add(st.donS))
	e.SetBal(st.payingAddr(), denomPay, owedP.Add(st.donP))
	e.SetBal(st.vestingAddr(), denomPay, owedV.Add(st.donV))
	return st
}

func setQueue(e *env.Env, q types.VestingQueue) {
	if err := e.K.VestingQueue.Set(e.Ctx, collections.Join(q.AuctionId, q.ReleaseTime), q); err != nil {
		panic(err)
	}
}

// ---- reading the post-state back ----

func bidsOf(e *env.Env, id uint64) []types.Bid {
	bs, err := e.K.GetBidsByAuctionId(e.Ctx, id)
	if err != nil {
		panic(err)
	}
	return bs
}

func queuesOf(e *env.Env, id uint64) []types.VestingQueue {
	qs, err := e.K.GetVestingQueuesByAuctionId(e.Ctx, id)
	if err != nil {
		panic(err)
	}
	return qs
}

// owed computes, from the stored records only, what each escrow of the auction
// must hold according to property C01.
func owed(e *env.Env, id uint64) (s, p, v nd.Z) {
	a := getAuction(e, id)
	s, p, v = nd.ZOf(0), nd.ZOf(0), nd.ZOf(0)
	switch a.GetStatus() {
	case types.AuctionStatusStandBy:
		s = nd.ZInt(a.GetSellingCoin().Amount)
	case types.AuctionStatusStarted:
		s = nd.ZInt(a.GetSellingCoin().Amount)
		for _, b := range bidsOf(e, id) {
			p = p.Add(payAmtZ(b))
		}
	case types.AuctionStatusVesting:
		for _, q := range queuesOf(e, id) {
			if !q.Released {
				v = v.Add(nd.ZInt(q.PayingCoin.Amount))
			}
		}
	}
	return
}

func sameTime(a, b time.Time) bool { return a.Equal(b) }
