package props

import (
	"time"

	"cosmossdk.io/math"
	sdk "github.com/cosmos/cosmos-sdk/types"

	fundraising "github.com/tendermint/fundraising/x/fundraising/module"
	"github.com/tendermint/fundraising/x/fundraising/types"

	"verif/harness/env"
	"verif/harness/nd"
)

func init() {
	register("H_Finding_C15_MatchedLen", H_Finding_C15_MatchedLen)
}

func must(err error) {
	if err != nil {
		panic(err)
	}
}

// H_Finding_C15_MatchedLen: history scenario of the listed finding
// C15-matchedlen-not-exported, through public messages, the allow-list API and
// blocks only. A batch auction (2 extension rounds, rate 0.5) gets two matched
// bids at its first end time (count 2 stored, auction extended). The state is
// exported and imported. At the second end time both bids still match: the
// original chain compares 2 with 2 (no drop) and settles; the imported chain
// has no stored count, compares with 0 and extends again.
func H_Finding_C15_MatchedLen() {
	t0 := time.Unix(1700000000, 0).UTC()
	day := 24 * time.Hour
	e := env.New(t0)
	must(e.K.Params.Set(e.Ctx, types.Params{AuctionCreationFee: sdk.Coins{}, PlaceBidFee: sdk.Coins{}, ExtendedPeriod: 1}))
	auctioneer, b1, b2 := user(0), user(1), user(2)
	e.SetBal(addr(auctioneer), denomSell, math.NewInt(1000))
	e.SetBal(addr(b1), denomPay, math.NewInt(1000))
	e.SetBal(addr(b2), denomPay, math.NewInt(1000))
	msg := types.NewMsgCreateBatchAuction(auctioneer, math.LegacyOneDec(), math.LegacyNewDecWithPrec(1, 1),
		sdk.NewCoin(denomSell, math.NewInt(1000)), denomPay, nil, 2, math.LegacyNewDecWithPrec(5, 1), t0, t0.Add(day))
	must(msg.ValidateBasic())
	_, err := e.Msg.CreateBatchAuction(e.Ctx, msg)
	must(err)
	must(e.K.AddAllowedBidders(e.Ctx, 0, []types.AllowedBidder{
		{AuctionId: 0, Bidder: b1, MaxBidAmount: math.NewInt(500)}, {AuctionId: 0, Bidder: b2, MaxBidAmount: math.NewInt(500)}}))
	_, err = e.Msg.PlaceBid(e.Ctx, types.NewMsgPlaceBid(0, b1, types.BidTypeBatchMany, math.LegacyOneDec(), sdk.NewCoin(denomSell, math.NewInt(100))))
	must(err)
	_, err = e.Msg.PlaceBid(e.Ctx, types.NewMsgPlaceBid(0, b2, types.BidTypeBatchMany, math.LegacyOneDec(), sdk.NewCoin(denomSell, math.NewInt(100))))
	must(err)
	// first end time: nothing to compare with -> extended, count 2 stored
	e.SetTime(t0.Add(day))
	must(e.K.BeginBlocker(e.Ctx))
	a := getAuction(e, 0)
	stored, _ := e.K.GetLastMatchedBidsLen(e.Ctx, 0)
	nd.Assert("C15.history-first-end-time-extends", a.GetStatus() == types.AuctionStatusStarted && len(a.GetEndTimes()) == 2 && stored == 2)

	gs, gerr := fundraising.ExportGenesis(e.Ctx, e.K)
	must(gerr)
	nd.Assert("C15.history-export-validates", gs.Validate() == nil)
	e2 := env.New(t0.Add(day))
	must(fundraising.InitGenesis(e2.Ctx, e2.K, *gs))
	for _, acc := range trackedAccounts(0) {
		for _, d := range []string{denomSell, denomPay} {
			e2.SetBal(acc, d, e.Bal(acc, d))
		}
	}
	// second end time on both
	e.SetTime(t0.Add(2 * day))
	e2.SetTime(t0.Add(2 * day))
	must(e.K.BeginBlocker(e.Ctx))
	must(e2.K.BeginBlocker(e2.Ctx))
	s1, s2 := getAuction(e, 0).GetStatus(), getAuction(e2, 0).GetStatus()
	nd.Observe("original", int64(s1))
	nd.Observe("imported", int64(s2))
	nd.Known("C15-matchedlen-not-exported", s1 == types.AuctionStatusFinished && s2 == types.AuctionStatusStarted)
	nd.Assert("C15.history-continuation-same-status", s1 == s2)
	nd.ClearKnown()
	nd.Cover("history-replayed")
}
