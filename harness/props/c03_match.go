package props

import (
	"cosmossdk.io/math"

	"github.com/tendermint/fundraising/x/fundraising/types"

	"verif/harness/env"
	"verif/harness/nd"
)

func init() {
	register("H_C03_Clearing", H_C03_Clearing)
}

// qtyAt is the quantity a bid asks for at price p (specification side).
func qtyAt(b types.Bid, p nd.Z) nd.Z {
	if b.Type == types.BidTypeBatchWorth {
		return nd.ZInt(b.Coin.Amount).Mul(zS()).FloorDiv(p)
	}
	return nd.ZInt(b.Coin.Amount)
}

// H_C03_Clearing: the real CalculateBatchAllocation against a linear-scan
// reference over the bids' own prices (DESIGN §6 C03, Harness A), plus the
// payment bands of C04 and the caps of C05 on the same matching result.
func H_C03_Clearing() {
	now := nd.Time("now")
	e := env.New(now)
	nBids := nd.Pick("nBids", nd.Param("maxBids", 2)) + 1
	nUsers := nd.Param("users", 2)
	// narrow variant (exactBids=k): exactly k quantity bids of one bidder at strictly decreasing prices —
	// the shape in which a per-bidder cap is consumed over several bids
	narrow := nd.Param("exactBids", 0)
	if narrow > 0 {
		nBids, nUsers = narrow, 1
	}
	sp := aSpec{id: 0, batch: true, status: types.AuctionStatusStarted, auctioneer: 0, nBids: nBids,
		nSched: 0, nEnd: 1, nUsers: nUsers, allowAll: true, hasMatchedLen: false, allMany: narrow > 0, flagsFalse: narrow > 0}
	st := buildAuction(e, "a.", sp)
	if narrow > 0 {
		for i := 1; i < nBids; i++ {
			nd.Assume(st.bids[i].Price.LT(st.bids[i-1].Price))
		}
	}
	setAuctionSeq(e, 2)
	offered := nd.ZInt(st.offered())
	// the same accounts may be on the allow-list of a later auction with other caps: they must not matter here
	if nd.Pick("laterAuctionAllowList", 2) == 1 {
		for u := 1; u <= nUsers; u++ {
			setAllowed(e, 1, user(u), posInt("b.cap"+itoa(u)))
		}
	}

	mInfo, err := e.K.CalculateBatchAllocation(e.Ctx, st.auction())
	nd.Assert("C03.no-error", err == nil)
	if err != nil {
		return
	}

	// ---- reference: lowest bid price whose capped demand fits ----
	type cand struct {
		fits   bool
		total  nd.Z
		demand []nd.Z // per user index
	}
	cands := make([]cand, nBids)
	for j := 0; j < nBids; j++ {
		pj := nd.ZDec(st.bids[j].Price)
		total := nd.ZOf(0)
		demand := make([]nd.Z, nUsers+1)
		for u := 1; u <= nUsers; u++ {
			sum := nd.ZOf(0)
			for _, b := range st.bids {
				if b.Bidder == user(u) {
					sum = sum.Add(nd.IteZ(nd.ZDec(b.Price).GE(pj), qtyAt(b, pj), nd.ZOf(0)))
				}
			}
			demand[u] = sum.Min(nd.ZInt(st.caps[u]))
			total = total.Add(demand[u])
		}
		cands[j] = cand{fits: total.LE(offered), total: total, demand: demand}
	}
	// p* = min{ p_j : fits_j }; selected[j] <=> bid j's price is p*
	anyFits := false
	for j := 0; j < nBids; j++ {
		anyFits = nd.Or(anyFits, cands[j].fits)
	}
	sold := nd.ZOf(0)
	pStar := nd.ZOf(0)
	wantAlloc := make([]nd.Z, nUsers+1)
	for u := range wantAlloc {
		wantAlloc[u] = nd.ZOf(0)
	}
	for j := 0; j < nBids; j++ {
		isMin := cands[j].fits
		for k := 0; k < nBids; k++ {
			if k != j {
				// no fitting price strictly below p_j; ties: the lowest index wins (same price, same result)
				lower := nd.ZDec(st.bids[k].Price).LT(nd.ZDec(st.bids[j].Price))
				tieBefore := nd.And(nd.ZDec(st.bids[k].Price).EQ(nd.ZDec(st.bids[j].Price)), k < j)
				isMin = nd.And(isMin, nd.Not(nd.And(cands[k].fits, nd.Or(lower, tieBefore))))
			}
		}
		pStar = nd.IteZ(isMin, nd.ZDec(st.bids[j].Price), pStar)
		sold = nd.IteZ(isMin, cands[j].total, sold)
		for u := 1; u <= nUsers; u++ {
			wantAlloc[u] = nd.IteZ(isMin, cands[j].demand[u], wantAlloc[u])
		}
	}
	nothingSold := nd.Or(nd.Not(anyFits), sold.IsZero())

	// ---- C03 oracle ----
	gotTotal := nd.ZInt(mInfo.TotalMatchedAmount)
	nd.Assert("C03.total-sold-is-capped-demand-at-clearing-price", gotTotal.EQ(nd.IteZ(nothingSold, nd.ZOf(0), sold)))
	gotPrice := nd.ZOf(0)
	if !mInfo.MatchedPrice.IsNil() {
		gotPrice = nd.ZDec(mInfo.MatchedPrice)
	}
	nd.Assert("C03.clearing-price-is-lowest-fitting-bid-price", nd.Or(nothingSold, gotPrice.EQ(pStar)))
	for u := 1; u <= nUsers; u++ {
		has := false
		for _, b := range st.bids {
			if b.Bidder == user(u) {
				has = true
			}
		}
		alloc, ok := mInfo.AllocationMap[user(u)]
		refund, ok2 := mInfo.RefundMap[user(u)]
		nd.Assert("C03.every-bidder-has-an-entry", ok == has && ok2 == has)
		if !has || !ok || !ok2 {
			continue
		}
		reserved := nd.ZOf(0)
		nMatched := 0
		maxOwnPrice := nd.ZOf(0)
		for _, b := range st.bids {
			if b.Bidder == user(u) {
				reserved = reserved.Add(payAmtZ(b))
				nMatched++
				maxOwnPrice = maxOwnPrice.Max(nd.ZDec(b.Price))
			}
		}
		ga := nd.ZInt(alloc)
		nd.Assert("C03.allocation-is-capped-demand", ga.EQ(nd.IteZ(nothingSold, nd.ZOf(0), wantAlloc[u])))
		nd.Assert("C19.allocation-independent-of-other-auctions-allow-lists", ga.EQ(nd.IteZ(nothingSold, nd.ZOf(0), wantAlloc[u])))
		nd.Assert("C03.nothing-sold-refunds-everything", nd.Implies(nothingSold, nd.ZInt(refund).EQ(reserved)))
		// ---- C05: caps ----
		nd.Assert("C05.batch-allocation-within-cap", ga.LE(nd.ZInt(st.caps[u])))
		nd.Assert("C05.batch-allocation-within-supply", ga.LE(offered))
		// ---- C04: one uniform price within rounding, never above reservation ----
		paid := reserved.Sub(nd.ZInt(refund))
		nd.Assert("C04.refund-nonnegative", nd.ZInt(refund).GE(nd.ZOf(0)))
		nd.Assert("C04.paid-at-least-price-times-quantity", paid.Mul(zS()).GE(gotPrice.Mul(ga)))
		nd.Assert("C04.paid-less-than-one-unit-more-per-bid", paid.Mul(zS()).LT(gotPrice.Mul(ga).Add(zS().Mul(nd.ZOf(int64(nMatched))))))
		nd.Assert("C04.paid-within-reservation", paid.LE(reserved))
		nd.Assert("C04.winner-price-not-above-own-limit", nd.Or(ga.IsZero(), gotPrice.LE(maxOwnPrice)))
		nd.Assert("C04.loser-gets-whole-reservation-back", nd.Implies(ga.IsZero(), nd.ZInt(refund).EQ(reserved)))
		nd.Observe("alloc"+itoa(u), alloc)
		nd.Observe("refund"+itoa(u), refund)
	}
	nd.Assert("C05.batch-total-within-supply", gotTotal.LE(offered))
	// flags of this matching: a bid is flagged iff it is among the matched bids
	nd.Observe("total", mInfo.TotalMatchedAmount)
	nd.Observe("matchedLen", mInfo.MatchedLen)
	if mInfo.MatchedLen > 0 {
		nd.Cover("something-matched")
	} else {
		nd.Cover("nothing-matched")
	}
	_ = math.ZeroInt
}
