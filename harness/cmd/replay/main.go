// Command replay executes one harness natively (real build of /repo, real
// store and bank) with the inputs of a scenario file written by the engine,
// and prints what happened as a RESULT line.
package main

import (
	"encoding/json"
	"flag"
	"fmt"
	"os"

	"verif/harness/nd"
	"verif/harness/props"
)

type result struct {
	Asserts       []nd.AssertRec    `json:"asserts"`
	Observe       map[string]string `json:"observe"`
	AssumesFailed []string          `json:"assumes_failed"`
	Panic         string            `json:"panic"`
	Covers        []string          `json:"covers"`
	Missing       []string          `json:"missing_values,omitempty"`
}

func main() {
	scenario := flag.String("scenario", "", "scenario file")
	verbose := flag.Bool("v", false, "print assertions")
	flag.Parse()
	if err := nd.Load(*scenario); err != nil {
		fmt.Fprintln(os.Stderr, "cannot load scenario:", err)
		os.Exit(2)
	}
	h, ok := props.Registry[nd.S.Sc.Harness]
	if !ok {
		fmt.Fprintln(os.Stderr, "unknown harness", nd.S.Sc.Harness)
		os.Exit(2)
	}
	res := result{}
	func() {
		defer func() {
			if r := recover(); r != nil {
				if nd.IsInfeasible(r) {
					return
				}
				res.Panic = fmt.Sprint(r)
			}
		}()
		h()
	}()
	res.Asserts = nd.S.Asserts
	res.Observe = nd.S.ObserveOut
	res.AssumesFailed = nd.S.AssumesFailed
	res.Covers = nd.S.Covers
	res.Missing = nd.S.Missing
	if *verbose {
		for _, a := range res.Asserts {
			fmt.Printf("ASSERT %-50s ok=%v\n", a.Label, a.OK)
		}
		for k, v := range res.Observe {
			fmt.Printf("OBSERVE %s = %s\n", k, v)
		}
		if res.Panic != "" {
			fmt.Println("PANIC", res.Panic)
		}
	}
	b, _ := json.Marshal(res)
	fmt.Println("RESULT " + string(b))
	failed := false
	for _, a := range res.Asserts {
		if !a.OK {
			failed = true
		}
	}
	if failed || res.Panic != "" {
		os.Exit(3)
	}
}
