//go:build verifsym

// Package nd is the nondeterminism API of the harnesses. Under the build tag
// verifsym (only ever type-checked and executed by /verif/engine, never
// compiled) every function below is an engine intrinsic; the bodies are never
// entered.
package nd

import (
	"context"
	"time"

	"cosmossdk.io/math"
)

func Int(name string) math.Int                                 { panic("nd") }
func IntN(name string, bits int) math.Int                      { panic("nd") }
func IntS(name string, bits int) math.Int                      { panic("nd") }
func DecS(name string, bits int) math.LegacyDec                { panic("nd") }
func Dec(name string) math.LegacyDec                           { panic("nd") }
func DecN(name string, bits int) math.LegacyDec                { panic("nd") }
func Time(name string) time.Time                               { panic("nd") }
func Uint64(name string) uint64                                { panic("nd") }
func Uint32(name string) uint32                                { panic("nd") }
func Int64(name string) int64                                  { panic("nd") }
func IntRange(name string, lo, hi int64) int64                 { panic("nd") }
func Bool(name string) bool                                    { panic("nd") }
func Pick(name string, n int) int                              { panic("nd") }
func Assume(c bool)                                            { panic("nd") }
func Assert(label string, c bool)                              { panic("nd") }
func Cover(label string)                                       { panic("nd") }
func Known(id string, c bool)                                  { panic("nd") }
func ClearKnown()                                              { panic("nd") }
func Try(f func()) bool                                        { panic("nd") }
func Observe(name string, v any)                               { panic("nd") }
func Option(name string)                                       { panic("nd") }
func Symbolic() bool                                           { panic("nd") }
func Tier() int                                                { panic("nd") }
func InitValueBool(binaryPkg, global string, linked bool) bool { panic("nd") }
func Param(name string, def int) int                           { panic("nd") }
func And(cs ...bool) bool                                      { panic("nd") }
func Or(cs ...bool) bool                                       { panic("nd") }
func Not(c bool) bool                                          { panic("nd") }
func Implies(a, b bool) bool                                   { panic("nd") }
func Iff(a, b bool) bool                                       { panic("nd") }
func IteInt(c bool, a, b math.Int) math.Int                    { panic("nd") }
func IteDec(c bool, a, b math.LegacyDec) math.LegacyDec        { panic("nd") }
func IteZ(c bool, a, b Z) Z                                    { panic("nd") }
func IteBool(c bool, a, b bool) bool                           { panic("nd") }
func IteTime(c bool, a, b time.Time) time.Time                 { panic("nd") }
func IteU64(c bool, a, b uint64) uint64                        { panic("nd") }
func NewContext(blockTime time.Time) context.Context           { panic("nd") }

// EventMark is the number of events emitted so far in this execution (all contexts share one list in the
// symbolic environment); SameEvents compares the events [a0,a1) and [b0,b1) of that list, type and attributes, in order.
func EventMark() int                      { panic("nd") }
func SameEvents(a0, a1, b0, b1 int) bool { panic("nd") }

// StoreBranch / StoreDiscard model a branched (cache) context that is thrown away: all store writes and
// events since the branch are undone; process memory (ordinary Go values) is left as it is.
func StoreBranch()  { panic("nd") }
func StoreDiscard() { panic("nd") }

// Z is a ghost (specification-side) unbounded integer.
type Z struct{ _ int }

func ZInt(i math.Int) Z         { panic("nd") }
func ZDec(d math.LegacyDec) Z   { panic("nd") }
func ZOf(i int64) Z             { panic("nd") }
func ZU64(i uint64) Z           { panic("nd") }
func ZTime(t time.Time) Z       { panic("nd") }
func ZStr(s string) Z           { panic("nd") }
func (a Z) Add(b Z) Z           { panic("nd") }
func (a Z) Sub(b Z) Z           { panic("nd") }
func (a Z) Mul(b Z) Z           { panic("nd") }
func (a Z) Min(b Z) Z           { panic("nd") }
func (a Z) Max(b Z) Z           { panic("nd") }
func (a Z) FloorDiv(b Z) Z      { panic("nd") }
func (a Z) CeilDiv(b Z) Z       { panic("nd") }
func (a Z) EQ(b Z) bool         { panic("nd") }
func (a Z) LT(b Z) bool         { panic("nd") }
func (a Z) LE(b Z) bool         { panic("nd") }
func (a Z) GT(b Z) bool         { panic("nd") }
func (a Z) GE(b Z) bool         { panic("nd") }
func (a Z) IsZero() bool        { panic("nd") }
func (a Z) IsPos() bool         { panic("nd") }
func (a Z) Int() math.Int       { panic("nd") }
func (a Z) Dec() math.LegacyDec { panic("nd") }
