//go:build !verifsym

// Package nd, native build: every symbolic input is read from a scenario file
// produced by the engine from a solver model; assertions are evaluated on the
// real build.
package nd

import (
	"encoding/json"
	"fmt"
	"math/big"
	"os"
	"time"

	"cosmossdk.io/math"
)

type Scenario struct {
	Property string            `json:"property"`
	Harness  string            `json:"harness"`
	Kind     string            `json:"kind"`
	Label    string            `json:"label"`
	Picks    map[string]int    `json:"picks"`
	Values   map[string]string `json:"values"`
	Observe  map[string]string `json:"observe"`
	Params   map[string]int    `json:"params"`
	Tier     string            `json:"tier"`
}

type AssertRec struct {
	Label string `json:"label"`
	OK    bool   `json:"ok"`
}

type State struct {
	Sc            *Scenario
	Asserts       []AssertRec
	ObserveOut    map[string]string
	AssumesFailed []string
	Covers        []string
	Missing       []string
	assumeSeq     int
}

var S = &State{Sc: &Scenario{Picks: map[string]int{}, Values: map[string]string{}}, ObserveOut: map[string]string{}}

func Load(path string) error {
	b, err := os.ReadFile(path)
	if err != nil {
		return err
	}
	sc := &Scenario{}
	if err := json.Unmarshal(b, sc); err != nil {
		return err
	}
	if sc.Picks == nil {
		sc.Picks = map[string]int{}
	}
	if sc.Values == nil {
		sc.Values = map[string]string{}
	}
	S = &State{Sc: sc, ObserveOut: map[string]string{}}
	return nil
}

func val(name string) *big.Int {
	s, ok := S.Sc.Values[name]
	if !ok || s == "" {
		S.Missing = append(S.Missing, name)
		return new(big.Int)
	}
	v, ok := new(big.Int).SetString(s, 10)
	if !ok {
		panic(fmt.Sprintf("scenario value %s=%q is not an integer", name, s))
	}
	return v
}

func Int(name string) math.Int            { return math.NewIntFromBigInt(val(name)) }
func IntN(name string, bits int) math.Int { return math.NewIntFromBigInt(val(name)) }
func Dec(name string) math.LegacyDec      { return math.LegacyNewDecFromBigIntWithPrec(val(name), 18) }
func DecN(name string, bits int) math.LegacyDec {
	return math.LegacyNewDecFromBigIntWithPrec(val(name), 18)
}
func IntS(name string, bits int) math.Int { return math.NewIntFromBigInt(val(name)) }
func DecS(name string, bits int) math.LegacyDec {
	return math.LegacyNewDecFromBigIntWithPrec(val(name), 18)
}
func Time(name string) time.Time {
	v, ok := S.Sc.Values[name]
	if !ok || v == "" {
		S.Missing = append(S.Missing, name)
		return time.Unix(946684800, 0).UTC()
	}
	return nsToTime(val(name))
}
func nsToTime(ns *big.Int) time.Time {
	q, r := new(big.Int).DivMod(ns, big.NewInt(1000000000), new(big.Int))
	return time.Unix(q.Int64(), r.Int64()).UTC()
}
func Uint64(name string) uint64 { return val(name).Uint64() }
func Uint32(name string) uint32 { return uint32(val(name).Uint64()) }
func Int64(name string) int64   { return val(name).Int64() }
func IntRange(name string, lo, hi int64) int64 {
	if _, ok := S.Sc.Values[name]; !ok {
		S.Missing = append(S.Missing, name)
		return lo
	}
	return val(name).Int64()
}
func Bool(name string) bool {
	return S.Sc.Values[name] == "true"
}
func Pick(name string, n int) int {
	v, ok := S.Sc.Picks[name]
	if !ok {
		return 0
	}
	return v
}

type infeasible struct{ what string }

func Assume(c bool) {
	S.assumeSeq++
	if !c {
		S.AssumesFailed = append(S.AssumesFailed, fmt.Sprintf("assume#%d", S.assumeSeq))
		panic(infeasible{fmt.Sprintf("assume#%d", S.assumeSeq)})
	}
}

// IsInfeasible reports whether a recovered panic value is a failed Assume.
func IsInfeasible(r any) bool { _, ok := r.(infeasible); return ok }

func Assert(label string, c bool) { S.Asserts = append(S.Asserts, AssertRec{label, c}) }
func Cover(label string)          { S.Covers = append(S.Covers, label) }
func Known(id string, c bool)     {}
func ClearKnown()                 {}
func Try(f func()) (panicked bool) {
	defer func() {
		if r := recover(); r != nil {
			if IsInfeasible(r) {
				panic(r)
			}
			panicked = true
		}
	}()
	f()
	return false
}
func Observe(name string, v any) { S.ObserveOut[name] = render(v) }
func Option(name string)         {}
func Symbolic() bool             { return false }
func Tier() int {
	if S.Sc.Tier == "thorough" {
		return 1
	}
	return 0
}

// InitValueBool: natively the replay binary links the application exactly as
// cmd/fundraisingd does (env -> app), so the value observed at process start is the answer.
func InitValueBool(binaryPkg, global string, linked bool) bool { return linked }
func Param(name string, def int) int {
	if v, ok := S.Sc.Params[name]; ok {
		return v
	}
	return def
}

func render(v any) string {
	switch x := v.(type) {
	case nil:
		return "<nil>"
	case error:
		if x == nil {
			return "<nil>"
		}
		return "err"
	case math.Int:
		if x.IsNil() {
			return "<nil>"
		}
		return x.String()
	case math.LegacyDec:
		if x.IsNil() {
			return "<nil>"
		}
		return x.BigInt().String()
	case Z:
		return x.v.String()
	case time.Time:
		ns := new(big.Int).Mul(big.NewInt(x.Unix()), big.NewInt(1000000000))
		return ns.Add(ns, big.NewInt(int64(x.Nanosecond()))).String()
	case bool:
		if x {
			return "true"
		}
		return "false"
	case string:
		return x
	case fmt.Stringer:
		return x.String()
	}
	return fmt.Sprint(v)
}

func And(cs ...bool) bool {
	for _, c := range cs {
		if !c {
			return false
		}
	}
	return true
}
func Or(cs ...bool) bool {
	for _, c := range cs {
		if c {
			return true
		}
	}
	return false
}
func Not(c bool) bool        { return !c }
func Implies(a, b bool) bool { return !a || b }
func Iff(a, b bool) bool     { return a == b }
func IteInt(c bool, a, b math.Int) math.Int {
	if c {
		return a
	}
	return b
}
func IteDec(c bool, a, b math.LegacyDec) math.LegacyDec {
	if c {
		return a
	}
	return b
}
func IteZ(c bool, a, b Z) Z {
	if c {
		return a
	}
	return b
}
func IteBool(c bool, a, b bool) bool {
	if c {
		return a
	}
	return b
}
func IteTime(c bool, a, b time.Time) time.Time {
	if c {
		return a
	}
	return b
}
func IteU64(c bool, a, b uint64) uint64 {
	if c {
		return a
	}
	return b
}

// Z is a ghost (specification-side) unbounded integer.
type Z struct{ v *big.Int }

func zz(v *big.Int) Z {
	return Z{v}
}
func (a Z) b() *big.Int {
	if a.v == nil {
		return new(big.Int)
	}
	return a.v
}
func ZInt(i math.Int) Z       { return zz(i.BigInt()) }
func ZDec(d math.LegacyDec) Z { return zz(d.BigInt()) }
func ZOf(i int64) Z           { return zz(big.NewInt(i)) }
func ZU64(i uint64) Z         { return zz(new(big.Int).SetUint64(i)) }
func ZTime(t time.Time) Z {
	ns := new(big.Int).Mul(big.NewInt(t.Unix()), big.NewInt(1000000000))
	return zz(ns.Add(ns, big.NewInt(int64(t.Nanosecond()))))
}
func ZStr(s string) Z {
	v, ok := new(big.Int).SetString(s, 10)
	if !ok {
		panic("nd.ZStr: bad literal " + s)
	}
	return zz(v)
}
func (a Z) Add(b Z) Z { return zz(new(big.Int).Add(a.b(), b.b())) }
func (a Z) Sub(b Z) Z { return zz(new(big.Int).Sub(a.b(), b.b())) }
func (a Z) Mul(b Z) Z { return zz(new(big.Int).Mul(a.b(), b.b())) }
func (a Z) Min(b Z) Z {
	if a.b().Cmp(b.b()) <= 0 {
		return a
	}
	return b
}
func (a Z) Max(b Z) Z {
	if a.b().Cmp(b.b()) >= 0 {
		return a
	}
	return b
}

// FloorDiv and CeilDiv require a positive divisor.
func (a Z) FloorDiv(b Z) Z {
	Assume(b.b().Sign() > 0)
	q, _ := new(big.Int).DivMod(a.b(), b.b(), new(big.Int))
	return zz(q)
}
func (a Z) CeilDiv(b Z) Z {
	Assume(b.b().Sign() > 0)
	n := new(big.Int).Neg(a.b())
	q, _ := new(big.Int).DivMod(n, b.b(), new(big.Int))
	return zz(q.Neg(q))
}
func (a Z) EQ(b Z) bool   { return a.b().Cmp(b.b()) == 0 }
func (a Z) LT(b Z) bool   { return a.b().Cmp(b.b()) < 0 }
func (a Z) LE(b Z) bool   { return a.b().Cmp(b.b()) <= 0 }
func (a Z) GT(b Z) bool   { return a.b().Cmp(b.b()) > 0 }
func (a Z) GE(b Z) bool   { return a.b().Cmp(b.b()) >= 0 }
func (a Z) IsZero() bool  { return a.b().Sign() == 0 }
func (a Z) IsPos() bool   { return a.b().Sign() > 0 }
func (a Z) Int() math.Int { return math.NewIntFromBigInt(a.b()) }
func (a Z) Dec() math.LegacyDec {
	return math.LegacyNewDecFromBigIntWithPrec(a.b(), 18)
}

// EventMark / SameEvents exist for the symbolic environment only; natively env compares the real event managers.
func EventMark() int                      { panic("nd.EventMark: symbolic environment only") }
func SameEvents(a0, a1, b0, b1 int) bool { panic("nd.SameEvents: symbolic environment only") }
