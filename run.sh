#!/bin/bash
# ./run.sh check <Cnn> quick|thorough     run the registered check of a property
# ./run.sh replay <scenario.json>         re-execute a scenario natively against /repo
# ./run.sh harness <name> [engine flags]  run one harness (development)
set -u
cd "$(dirname "$0")"
export GOFLAGS=-mod=mod GOPROXY=off GOSUMDB=off GOTOOLCHAIN=local
[ -x bin/gosym ] || ./setup.sh >/dev/null || { echo "setup failed"; exit 2; }
cmd=${1:-}
case "$cmd" in
check)
  prop=$2; tier=${3:-${VERIF_TIER:-quick}}
  line=$(grep -E "^$prop[[:space:]]+$tier[[:space:]]" checks.tsv | head -1)
  if [ -z "$line" ]; then echo "no check registered for $prop $tier"; exit 2; fi
  harnesses=$(echo "$line" | cut -f3)
  params=$(echo "$line" | cut -f4)
  extra=$(echo "$line" | cut -f5)
  rm -f evidence/$prop.json
  # shellcheck disable=SC2086
  exec ./bin/gosym -harness-dir "$PWD/harness" -known "$PWD/known_findings.json" -replay-dir "$PWD/replays" \
    -property "$prop" -tier "$tier" -run "$harnesses" -params "$params" -out evidence/$prop.json $extra
  ;;
replay)
  work=.work/replay.$$
  mkdir -p $work
  (cd harness && go build -o ../$work/replay ./cmd/replay) || { rm -rf $work; exit 2; }
  $work/replay -v -scenario "$2"; rc=$?
  rm -rf $work
  exit $rc
  ;;
harness)
  shift; name=$1; shift
  exec ./bin/gosym -harness-dir "$PWD/harness" -known "$PWD/known_findings.json" -replay-dir "$PWD/replays" -run "$name" "$@"
  ;;
*)
  echo "usage: $0 check <Cnn> quick|thorough | replay <file> | harness <name> [flags]"; exit 2;;
esac
