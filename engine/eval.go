package main

// Concrete evaluation of terms under a model of the path condition. A model
// that satisfies the path condition lets most feasibility questions be
// answered without the solver: if the model makes a branch condition true,
// that side is feasible and only the other side needs a query.

import (
	"math/big"
	"strings"
)

type evalRes struct {
	ok bool
	i  *big.Int
	b  bool
}

type Model struct {
	vals map[string]string // variable name (without bars) -> value text
	memo map[*Term]evalRes
}

func newModel(vals map[string]string) *Model {
	return &Model{vals: vals, memo: map[*Term]evalRes{}}
}

func (m *Model) evalBool(t *Term) (val bool, ok bool) {
	r := m.eval(t)
	return r.b, r.ok
}

func (m *Model) eval(t *Term) evalRes {
	if t.op == "const" {
		return evalRes{ok: true, i: t.val, b: t.b}
	}
	if r, ok := m.memo[t]; ok {
		return r
	}
	r := m.eval1(t)
	m.memo[t] = r
	return r
}

func (m *Model) eval1(t *Term) evalRes {
	bad := evalRes{}
	switch t.op {
	case "var":
		name := strings.Trim(t.ref, "|")
		s, ok := m.vals[name]
		if !ok || s == "" {
			return bad
		}
		if t.sort == SBool {
			return evalRes{ok: true, b: s == "true"}
		}
		v, ok2 := new(big.Int).SetString(s, 10)
		if !ok2 {
			return bad
		}
		return evalRes{ok: true, i: v}
	}
	args := make([]evalRes, len(t.args))
	for i, a := range t.args {
		// short-circuit ite
		if t.op == "ite" && i > 0 {
			continue
		}
		args[i] = m.eval(a)
		if !args[i].ok && t.op != "and" && t.op != "or" {
			return bad
		}
	}
	bi := func(v *big.Int) evalRes { return evalRes{ok: true, i: v} }
	bb := func(v bool) evalRes { return evalRes{ok: true, b: v} }
	switch t.op {
	case "+":
		return bi(new(big.Int).Add(args[0].i, args[1].i))
	case "-":
		if len(args) == 1 {
			return bi(new(big.Int).Neg(args[0].i))
		}
		return bi(new(big.Int).Sub(args[0].i, args[1].i))
	case "*":
		return bi(new(big.Int).Mul(args[0].i, args[1].i))
	case "div":
		if args[1].i.Sign() == 0 {
			return bad
		}
		q, _ := new(big.Int).DivMod(args[0].i, args[1].i, new(big.Int))
		return bi(q)
	case "mod":
		if args[1].i.Sign() == 0 {
			return bad
		}
		return bi(new(big.Int).Mod(args[0].i, args[1].i))
	case "ite":
		if args[0].b {
			return m.eval(t.args[1])
		}
		return m.eval(t.args[2])
	case "=":
		if t.args[0].sort == SBool {
			return bb(args[0].b == args[1].b)
		}
		return bb(args[0].i.Cmp(args[1].i) == 0)
	case "<":
		return bb(args[0].i.Cmp(args[1].i) < 0)
	case "<=":
		return bb(args[0].i.Cmp(args[1].i) <= 0)
	case "not":
		return bb(!args[0].b)
	case "and":
		unknown := false
		for _, a := range args {
			if !a.ok {
				unknown = true
			} else if !a.b {
				return bb(false)
			}
		}
		if unknown {
			return bad
		}
		return bb(true)
	case "or":
		unknown := false
		for _, a := range args {
			if !a.ok {
				unknown = true
			} else if a.b {
				return bb(true)
			}
		}
		if unknown {
			return bad
		}
		return bb(false)
	}
	return bad
}
