package main

// Concrete evaluation of terms under a model of the path condition. A model
// that satisfies the path condition lets most feasibility questions be
// answered without the solver: if the model makes a branch condition true,
// that side is feasible and only the other side needs a query.

import (
	"math/big"
	"strings"
)

type evalRes struct {
	ok bool
	i  *big.Int
	b  bool
}

type Model struct {
	vals map[string]string // variable name (without bars) -> value text
	memo map[*Term]evalRes
}

func newModel(vals map[string]string) *Model {
	return &Model{vals: vals, memo: map[*Term]evalRes{}}
}

func (m *Model) evalBool(t *Term) (val bool, ok bool) {
	r := m.eval(t)
	return r.b, r.ok
}

func (m *Model) eval(t *Term) evalRes {
	if t.op == "const" {
		return evalRes{ok: true, i: t.val, b: t.b}
	}
	if r, ok := m.memo[t]; ok {
		return r
	}
	r := m.eval1(t)
	m.memo[t] = r
	return r
}

func (m *Model) eval1(t *Term) evalRes {
	bad := evalRes{}
	switch t.op {
	case "var":
		name := strings.Trim(t.ref, "|")
		s, ok := m.vals[name]
		if !ok || s == "" {
			return bad
		}
		if t.sort == SBool {
			return evalRes{ok: true, b: s == "true"}
		}
		v, ok2 := new(big.Int).SetString(s, 10)
		if !ok2 {
			return bad
		}
		return evalRes{ok: true, i: v}
	}
	args := make([]evalRes, len(t.args))
	for i, a := range t.args {
		// short-circuit ite
		if t.op == "ite" && i > 0 {
			continue
		}
		args[i] = m.eval(a)
		if !args[i].ok && t.op != "and" && t.op != "or" {
			return bad
		}
	}
	bi := func(v *big.Int) evalRes { return evalRes{ok: true, i: v} }
	bb := func(v bool) evalRes { return evalRes{ok: true, b: v} }
	switch t.op {
	case "+":
		return bi(new(big.Int).Add(args[0].i, args[1].i))
	case "-":
		if len(args) == 1 {
			return bi(new(big.Int).Neg(args[0].i))
		}
		return bi(new(big.Int).Sub(args[0].i, args[1].i))
	case "*":
		return bi(new(big.Int).Mul(args[0].i, args[1].i))
	case "div":
		if args[1].i.Sign() == 0 {
			return bad
		}
		q, _ := new(big.Int).DivMod(args[0].i, args[1].i, new(big.Int))
		return bi(q)
	case "mod":
		if args[1].i.Sign() == 0 {
			return bad
		}
		return bi(new(big.Int).Mod(args[0].i, args[1].i))
	case "ite":
		if args[0].b {
			return m.eval(t.args[1])
		}
		return m.eval(t.args[2])
	case "=":
		if t.args[0].sort == SBool {
			return bb(args[0].b == args[1].b)
		}
		return bb(args[0].i.Cmp(args[1].i) == 0)
	case "<":
		return bb(args[0].i.Cmp(args[1].i) < 0)
	case "<=":
		return bb(args[0].i.Cmp(args[1].i) <= 0)
	case "not":
		return bb(!args[0].b)
	case "and":
		unknown := false
		for _, a := range args {
			if !a.ok {
				unknown = true
			} else if !a.b {
				return bb(false)
			}
		}
		if unknown {
			return bad
		}
		return bb(true)
	case "or":
		unknown := false
		for _, a := range args {
			if !a.ok {
				unknown = true
			} else if a.b {
				return bb(true)
			}
		}
		if unknown {
			return bad
		}
		return bb(false)
	}
	return bad
}

func collectVars(t *Term, seen map[*Term]bool, out *[]*Term) {
	if seen[t] {
		return
	}
	seen[t] = true
	if t.op == "var" {
		*out = append(*out, t)
		return
	}
	for _, a := range t.args {
		collectVars(a, seen, out)
	}
}

var candConsts = []string{"0", "1", "2", "3", "1000000000000000000", "2000000000000000000", "500000000000000000", "1000000000000000001", "999999999999999999", "1000000", "7"}

// searchModel looks for an assignment satisfying the path condition and cond by
// perturbing the current model one or two variables at a time. A hit is a
// genuine witness (terms are evaluated with SMT-LIB semantics); a miss means nothing.
func (e *Exec) searchModel(cond *Term) map[string]string {
	if e.model == nil {
		return nil
	}
	var vars []*Term
	collectVars(cond, map[*Term]bool{}, &vars)
	if len(vars) == 0 || len(vars) > 12 {
		return nil
	}
	base := e.model.vals
	check := func(vals map[string]string) bool {
		m := newModel(vals)
		if v, ok := m.evalBool(cond); !ok || !v {
			return false
		}
		for _, p := range e.pc {
			if v, ok := m.evalBool(p); !ok || !v {
				return false
			}
		}
		return true
	}
	tries := 0
	for _, v := range vars {
		if v.sort != SInt {
			continue
		}
		name := strings.Trim(v.ref, "|")
		cur, _ := new(big.Int).SetString(base[name], 10)
		cands := append([]string(nil), candConsts...)
		if cur != nil {
			cands = append(cands, new(big.Int).Add(cur, big.NewInt(1)).String(), new(big.Int).Sub(cur, big.NewInt(1)).String(),
				new(big.Int).Mul(cur, big.NewInt(2)).String())
		}
		// values of the other variables in the condition are natural candidates too
		for _, w := range vars {
			if w != v && w.sort == SInt {
				if s, ok := base[strings.Trim(w.ref, "|")]; ok && s != "" {
					cands = append(cands, s)
					if wv, ok2 := new(big.Int).SetString(s, 10); ok2 {
						cands = append(cands, new(big.Int).Add(wv, big.NewInt(1)).String(), new(big.Int).Sub(wv, big.NewInt(1)).String())
					}
				}
			}
		}
		for _, c := range cands {
			if c == base[name] {
				continue
			}
			tries++
			if tries > 400 {
				return nil
			}
			vals := make(map[string]string, len(base)+1)
			for k, x := range base {
				vals[k] = x
			}
			vals[name] = c
			if check(vals) {
				return vals
			}
		}
	}
	return nil
}

// interestingValues: candidate concrete values for counterexample search —
// small integers and 18-decimal fractions k/n rounded down and up (the inputs
// on which rounding defects show).
var interestingValues = func() []string {
	seen := map[string]bool{}
	var out []string
	add := func(v *big.Int) {
		s := v.String()
		if !seen[s] {
			seen[s] = true
			out = append(out, s)
		}
	}
	for i := int64(0); i <= 12; i++ {
		add(big.NewInt(i))
	}
	for _, i := range []int64{15, 20, 21, 30, 33, 50, 99, 100, 101, 333, 1000, 1000000, 1000001} {
		add(big.NewInt(i))
	}
	S := new(big.Int).Set(bigS)
	for n := int64(1); n <= 9; n++ {
		for k := int64(1); k <= 40; k++ {
			if k > 12 && k%5 != 0 && k != 34 {
				continue
			}
			num := new(big.Int).Mul(big.NewInt(k), S)
			q, r := new(big.Int).QuoRem(num, big.NewInt(n), new(big.Int))
			add(q)
			if r.Sign() != 0 {
				add(new(big.Int).Add(q, big.NewInt(1)))
			}
		}
	}
	add(new(big.Int).Add(S, big.NewInt(1)))
	add(new(big.Int).Sub(S, big.NewInt(1)))
	add(new(big.Int).Add(S, big.NewInt(2)))
	return out
}()

var smallInts = func() []string {
	var out []string
	for i := int64(0); i <= 40; i++ {
		out = append(out, big.NewInt(i).String())
	}
	for _, i := range []int64{50, 99, 100, 101, 333, 1000, 1000000, 1000001} {
		out = append(out, big.NewInt(i).String())
	}
	return out
}()

// fuzzViolation searches concretely for an assignment that satisfies the path
// condition and q (the negated assertion). It is used after the solver answered
// "unknown": mutations of the current model over the variables q mentions, with
// values drawn per kind (amounts: small integers; decimals: 18-decimal fractions
// k/n rounded down and up; instants: neighbours), sometimes giving several
// decimals the same value. Any hit is replayed natively before being reported; a
// miss proves nothing (the obligation stays inconclusive).
func (e *Exec) fuzzViolation(q *Term, budget int) map[string]string {
	if e.model == nil {
		return nil
	}
	var names []string
	for _, v := range e.tc.vars {
		if v.sort == SInt {
			n := strings.Trim(v.ref, "|")
			if !strings.HasPrefix(n, "time.Now") {
				names = append(names, n)
			}
		}
	}
	if len(names) == 0 {
		return nil
	}
	base := e.model.vals
	seed := uint64(88172645463325252) + uint64(len(e.pc))*7919 + uint64(e.h.seed)
	next := func(n int) int {
		seed ^= seed << 13
		seed ^= seed >> 7
		seed ^= seed << 17
		return int(seed % uint64(n))
	}
	pick := func(name string) string {
		switch e.tc.varKind[name] {
		case 'd':
			return interestingValues[next(len(interestingValues))]
		case 't':
			cur, ok := new(big.Int).SetString(base[name], 10)
			if !ok {
				return base[name]
			}
			d := []int64{0, 1, -1, 86400000000000, -86400000000000, 1000000000}[next(6)]
			return new(big.Int).Add(cur, big.NewInt(d)).String()
		}
		return smallInts[next(len(smallInts))]
	}
	// random walk inside the feasible region: a proposal that keeps the path
	// condition true becomes the new base; q is tested at every feasible point
	pcHolds := func(vals map[string]string) (*Model, bool) {
		m := newModel(vals)
		for _, p := range e.pc {
			if v, ok := m.evalBool(p); !ok || !v {
				return nil, false
			}
		}
		return m, true
	}
	cur := base
	for it := 0; it < budget; it++ {
		vals := make(map[string]string, len(cur)+3)
		for k, x := range cur {
			vals[k] = x
		}
		nm := 1 + next(3)
		shared := ""
		for j := 0; j < nm; j++ {
			n := names[next(len(names))]
			v := pick(n)
			if e.tc.varKind[n] == 'd' {
				if shared != "" && next(2) == 0 {
					v = shared
				}
				shared = v
			}
			vals[n] = v
		}
		m, ok := pcHolds(vals)
		if !ok {
			continue
		}
		if v, ok2 := m.evalBool(q); ok2 && v {
			return vals
		}
		if next(3) != 0 {
			cur = vals
		}
	}
	return nil
}
