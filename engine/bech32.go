package main

import (
	"crypto/sha256"
	"fmt"
	"strings"
)

const bech32Charset = "qpzry9x8gf2tvdw0s3jn54khce6mua7l"

func bech32Polymod(values []int) int {
	gen := []int{0x3b6a57b2, 0x26508e6d, 0x1ea119fa, 0x3d4233dd, 0x2a1462b3}
	chk := 1
	for _, v := range values {
		b := chk >> 25
		chk = (chk&0x1ffffff)<<5 ^ v
		for i := 0; i < 5; i++ {
			if (b>>uint(i))&1 == 1 {
				chk ^= gen[i]
			}
		}
	}
	return chk
}

func bech32HrpExpand(hrp string) []int {
	var out []int
	for _, c := range hrp {
		out = append(out, int(c>>5))
	}
	out = append(out, 0)
	for _, c := range hrp {
		out = append(out, int(c&31))
	}
	return out
}

func convertBits(data []byte, from, to uint, pad bool) ([]byte, error) {
	acc := 0
	bits := uint(0)
	var out []byte
	maxv := (1 << to) - 1
	for _, b := range data {
		if int(b)>>from != 0 {
			return nil, fmt.Errorf("invalid data range")
		}
		acc = (acc<<from | int(b)) & ((1 << (from + to - 1)) - 1)
		bits += from
		for bits >= to {
			bits -= to
			out = append(out, byte((acc>>bits)&maxv))
		}
	}
	if pad {
		if bits > 0 {
			out = append(out, byte((acc<<(to-bits))&maxv))
		}
	} else if bits >= from || (acc<<(to-bits))&maxv != 0 {
		return nil, fmt.Errorf("invalid padding")
	}
	return out, nil
}

func bech32Encode(hrp string, data []byte) (string, error) {
	conv, err := convertBits(data, 8, 5, true)
	if err != nil {
		return "", err
	}
	values := bech32HrpExpand(hrp)
	for _, b := range conv {
		values = append(values, int(b))
	}
	values = append(values, 0, 0, 0, 0, 0, 0)
	mod := bech32Polymod(values) ^ 1
	var sb strings.Builder
	sb.WriteString(hrp)
	sb.WriteByte('1')
	for _, b := range conv {
		sb.WriteByte(bech32Charset[b])
	}
	for i := 0; i < 6; i++ {
		sb.WriteByte(bech32Charset[(mod>>uint(5*(5-i)))&31])
	}
	return sb.String(), nil
}

func bech32Decode(s string) (string, []byte, error) {
	if len(s) < 8 {
		return "", nil, fmt.Errorf("invalid bech32 string length %d", len(s))
	}
	lower := strings.ToLower(s)
	upper := strings.ToUpper(s)
	if s != lower && s != upper {
		return "", nil, fmt.Errorf("string not all lowercase or all uppercase")
	}
	s = lower
	for i := 0; i < len(s); i++ {
		if s[i] < 33 || s[i] > 126 {
			return "", nil, fmt.Errorf("invalid character in string")
		}
	}
	pos := strings.LastIndexByte(s, '1')
	if pos < 1 || pos+7 > len(s) {
		return "", nil, fmt.Errorf("invalid index of 1")
	}
	hrp := s[:pos]
	var data []int
	for i := pos + 1; i < len(s); i++ {
		d := strings.IndexByte(bech32Charset, s[i])
		if d < 0 {
			return "", nil, fmt.Errorf("invalid character not part of charset: %v", s[i])
		}
		data = append(data, d)
	}
	if bech32Polymod(append(bech32HrpExpand(hrp), data...)) != 1 {
		return "", nil, fmt.Errorf("invalid checksum")
	}
	data = data[:len(data)-6]
	bs := make([]byte, len(data))
	for i, d := range data {
		bs[i] = byte(d)
	}
	out, err := convertBits(bs, 5, 8, false)
	if err != nil {
		return "", nil, err
	}
	return hrp, out, nil
}

// addressHash mirrors github.com/cosmos/cosmos-sdk/types/address.Hash.
func addressHash(typ string, key []byte) []byte {
	th := sha256.Sum256([]byte(typ))
	h := sha256.New()
	h.Write(th[:])
	h.Write(key)
	return h.Sum(nil)
}

// addressModule mirrors address.Module(moduleName, key).
func addressModule(moduleName string, keys ...[]byte) []byte {
	mKey := []byte(moduleName)
	if len(keys) == 0 {
		s := sha256.Sum256(mKey)
		return s[:20]
	}
	mKey = append(mKey, 0)
	addr := addressHash("module", append(mKey, keys[0]...))
	for _, k := range keys[1:] {
		addr = addressHash(string(addr), k)
	}
	return addr
}
