package main

// One live incremental solver process per worker (z3-new -in by default).
// No set-logic is ever sent. Any "(error" line makes the answer inconclusive.

import (
	"bufio"
	"fmt"
	"io"
	"os"
	"os/exec"
	"strings"
	"sync/atomic"
	"time"
)

type SolverStats struct {
	sat, unsat, unknown, errors int64
	queries                     int64
	nanos                       int64
}

var gStats SolverStats

type Solver struct {
	name  string
	cmd   *exec.Cmd
	in    io.WriteCloser
	out   *bufio.Reader
	depth int
	dead  bool
	trace io.Writer
	lastAssert string
}

func solverArgv(name string) []string {
	switch name {
	case "z3-new":
		return []string{"z3-new", "-in"}
	case "z3":
		return []string{"z3", "-in"}
	case "cvc5":
		return []string{"cvc5", "--incremental", "--lang=smt2", "--produce-models"}
	}
	return []string{name, "-in"}
}

func startSolver(name string) (*Solver, error) {
	argv := solverArgv(name)
	cmd := exec.Command(argv[0], argv[1:]...)
	in, err := cmd.StdinPipe()
	if err != nil {
		return nil, err
	}
	outp, err := cmd.StdoutPipe()
	if err != nil {
		return nil, err
	}
	cmd.Stderr = cmd.Stdout
	if err := cmd.Start(); err != nil {
		return nil, err
	}
	s := &Solver{name: name, cmd: cmd, in: in, out: bufio.NewReaderSize(outp, 1<<16)}
	if tf := os.Getenv("GOSYM_SMT_TRACE"); tf != "" {
		f, _ := os.OpenFile(fmt.Sprintf("%s.%d", tf, cmd.Process.Pid), os.O_CREATE|os.O_WRONLY|os.O_TRUNC, 0o644)
		s.trace = f
	}
	s.send("(set-option :produce-models true)")
	if name != "cvc5" {
		s.send("(set-option :pp.decimal false)")
	}
	return s, nil
}

var slowLog io.Writer

func init() {
	if f := os.Getenv("GOSYM_SLOW_LOG"); f != "" {
		slowLog, _ = os.OpenFile(f, os.O_CREATE|os.O_WRONLY|os.O_TRUNC, 0o644)
	}
}

func (s *Solver) send(line string) {
	if s.dead {
		return
	}
	if strings.HasPrefix(line, "(assert") {
		s.lastAssert = line
	}
	if s.trace != nil {
		fmt.Fprintln(s.trace, line)
	}
	if _, err := io.WriteString(s.in, line+"\n"); err != nil {
		s.dead = true
	}
}

func (s *Solver) Close() {
	if s == nil || s.cmd == nil {
		return
	}
	s.in.Close()
	done := make(chan struct{})
	go func() { s.cmd.Wait(); close(done) }()
	select {
	case <-done:
	case <-time.After(500 * time.Millisecond):
		s.cmd.Process.Kill()
		<-done
	}
}

func (s *Solver) Kill() {
	s.dead = true
	if s.cmd != nil && s.cmd.Process != nil {
		s.cmd.Process.Kill()
		s.cmd.Wait()
	}
}

func (s *Solver) Push() { s.send("(push 1)"); s.depth++ }
func (s *Solver) Pop() {
	s.send("(pop 1)")
	s.depth--
}

// readLine reads one response line with a wall-clock guard.
func (s *Solver) readLine(timeout time.Duration) (string, bool) {
	type res struct {
		l   string
		err error
	}
	ch := make(chan res, 1)
	go func() {
		l, err := s.out.ReadString('\n')
		ch <- res{l, err}
	}()
	select {
	case r := <-ch:
		if r.err != nil {
			s.dead = true
			return strings.TrimSpace(r.l), false
		}
		return strings.TrimSpace(r.l), true
	case <-time.After(timeout):
		// the solver ignored its own timeout: kill it, the reader goroutine ends with an error
		s.Kill()
		return "", false
	}
}

// Check runs (check-sat) with a per-query timeout. Returns "sat", "unsat" or "unknown".
func (s *Solver) Check(timeoutMs int) string {
	if s.dead {
		return "unknown"
	}
	t0 := time.Now()
	if s.name == "cvc5" {
		s.send(fmt.Sprintf("(set-option :tlimit-per %d)", timeoutMs))
	} else {
		s.send(fmt.Sprintf("(set-option :timeout %d)", timeoutMs))
	}
	s.send("(check-sat)")
	ans := "unknown"
	for {
		l, ok := s.readLine(time.Duration(timeoutMs)*time.Millisecond + 20*time.Second)
		if !ok {
			ans = "unknown"
			break
		}
		if l == "" || l == "success" {
			continue
		}
		if strings.HasPrefix(l, "(error") {
			atomic.AddInt64(&gStats.errors, 1)
			fmt.Fprintf(os.Stderr, "SOLVER-ERROR %s: %s\n", s.name, l)
			ans = "error"
			// after an error the check-sat answer may still follow; treat whole query as inconclusive
			continue
		}
		if l == "sat" || l == "unsat" || l == "unknown" || l == "timeout" {
			if ans == "error" {
				ans = "unknown"
			} else if l == "timeout" {
				ans = "unknown"
			} else {
				ans = l
			}
			break
		}
		// unexpected output
		fmt.Fprintf(os.Stderr, "SOLVER-UNEXPECTED %s: %s\n", s.name, l)
	}
	atomic.AddInt64(&gStats.queries, 1)
	atomic.AddInt64(&gStats.nanos, int64(time.Since(t0)))
	if slowLog != nil && time.Since(t0) > time.Second {
		fmt.Fprintf(slowLog, "SLOW %.1fs %s pid=%d last=%s\n", time.Since(t0).Seconds(), ans, s.cmd.Process.Pid, s.lastAssert)
	}
	switch ans {
	case "sat":
		atomic.AddInt64(&gStats.sat, 1)
	case "unsat":
		atomic.AddInt64(&gStats.unsat, 1)
	default:
		atomic.AddInt64(&gStats.unknown, 1)
	}
	return ans
}

// GetValues asks for the model values of the given references; returns ref -> value text.
func (s *Solver) GetValues(refs []string) map[string]string {
	res := map[string]string{}
	if s.dead || len(refs) == 0 {
		return res
	}
	// chunk to keep lines reasonable
	for i := 0; i < len(refs); i += 50 {
		j := i + 50
		if j > len(refs) {
			j = len(refs)
		}
		s.send("(get-value (" + strings.Join(refs[i:j], " ") + "))")
		txt := s.readSexp()
		pairs := parseGetValue(txt)
		for k, p := range pairs {
			if k < j-i {
				res[refs[i+k]] = p
			}
		}
	}
	return res
}

func (s *Solver) readSexp() string {
	var sb strings.Builder
	depth := 0
	started := false
	for {
		l, ok := s.readLine(30 * time.Second)
		if !ok {
			return sb.String()
		}
		if strings.HasPrefix(l, "(error") && !started {
			atomic.AddInt64(&gStats.errors, 1)
			fmt.Fprintf(os.Stderr, "SOLVER-ERROR %s: %s\n", s.name, l)
			return ""
		}
		inBar := false
		for _, ch := range l {
			if ch == '|' {
				inBar = !inBar
			}
			if inBar {
				continue
			}
			if ch == '(' {
				depth++
				started = true
			} else if ch == ')' {
				depth--
			}
		}
		sb.WriteString(l)
		sb.WriteByte(' ')
		if started && depth <= 0 {
			return sb.String()
		}
	}
}

// parseGetValue parses "((ref val) (ref val) ...)" and returns the value texts in order.
func parseGetValue(txt string) []string {
	toks := tokenize(txt)
	pos := 0
	var parse func() interface{}
	parse = func() interface{} {
		if pos >= len(toks) {
			return nil
		}
		t := toks[pos]
		pos++
		if t == "(" {
			var l []interface{}
			for pos < len(toks) && toks[pos] != ")" {
				l = append(l, parse())
			}
			pos++
			return l
		}
		return t
	}
	top, _ := parse().([]interface{})
	var out []string
	for _, p := range top {
		pl, ok := p.([]interface{})
		if !ok || len(pl) != 2 {
			out = append(out, "")
			continue
		}
		out = append(out, evalSexpValue(pl[1]))
	}
	return out
}

func tokenize(s string) []string {
	var toks []string
	i := 0
	for i < len(s) {
		ch := s[i]
		switch {
		case ch == '(' || ch == ')':
			toks = append(toks, string(ch))
			i++
		case ch == ' ' || ch == '\t' || ch == '\n' || ch == '\r':
			i++
		case ch == '|':
			j := i + 1
			for j < len(s) && s[j] != '|' {
				j++
			}
			toks = append(toks, s[i:j+1])
			i = j + 1
		default:
			j := i
			for j < len(s) && !strings.ContainsRune("() \t\n\r", rune(s[j])) {
				j++
			}
			toks = append(toks, s[i:j])
			i = j
		}
	}
	return toks
}

// evalSexpValue turns a model value such as 5, (- 5), true into canonical text.
func evalSexpValue(v interface{}) string {
	switch x := v.(type) {
	case string:
		return x
	case []interface{}:
		if len(x) == 2 {
			if op, ok := x[0].(string); ok && op == "-" {
				return "-" + evalSexpValue(x[1])
			}
		}
	}
	return fmt.Sprint(v)
}
