package main

import (
	"flag"
	"fmt"
	"os"
	"runtime"
	"strings"
)

func main() {
	harnessDir := flag.String("harness-dir", "/verif/harness", "harness module directory")
	runList := flag.String("run", "", "comma separated harness function names")
	property := flag.String("property", "", "property id")
	tier := flag.String("tier", "quick", "quick|thorough")
	workers := flag.Int("workers", runtime.NumCPU(), "parallel workers")
	out := flag.String("out", "", "evidence file")
	solver := flag.String("solver", "z3-new", "primary solver")
	trace := flag.Bool("trace", false, "trace instructions")
	maxPaths := flag.Int("max-paths", 0, "stop after this many paths (0 = no limit)")
	groups := flag.String("groups", "", "comma separated assertion label prefixes to check")
	replayDir := flag.String("replay-dir", "/verif/replays", "where scenario files are written")
	knownFile := flag.String("known", "/verif/known_findings.json", "known findings file")
	params := flag.String("params", "", "comma separated name=int harness parameters (bounds)")
	noNative := flag.Bool("no-native", false, "skip native replay (development only)")
	scan := flag.String("scan", "", "static scan only: nondet|bank")
	flag.Parse()
	if *scan != "" {
		prog, err := loadProgram(*harnessDir, "./props")
		if err != nil {
			fmt.Fprintln(os.Stderr, err)
			os.Exit(2)
		}
		var sites []scanSite
		if *scan == "nondet" {
			sites = prog.scanNondet()
		} else {
			sites = prog.scanBankCalls()
		}
		for _, s := range sites {
			fmt.Printf("%s\t%s\t%s\n", s.Kind, s.Pos, s.Func)
		}
		return
	}
	cfg := &RunConfig{HarnessDir: *harnessDir, Property: *property, Tier: *tier, Workers: *workers, Out: *out,
		Solver: *solver, Trace: *trace, MaxPaths: *maxPaths, ReplayDir: *replayDir, KnownFile: *knownFile, NoNative: *noNative}
	cfg.Params = map[string]int{}
	for _, kv := range strings.Split(*params, ",") {
		if i := strings.Index(kv, "="); i > 0 {
			var v int
			fmt.Sscanf(kv[i+1:], "%d", &v)
			cfg.Params[kv[:i]] = v
		}
	}
	if *groups != "" {
		cfg.Groups = strings.Split(*groups, ",")
	}
	// harness list: name or name{k=v;k=v} (per-harness parameter overrides)
	cfg.HarnessParams = map[string]map[string]int{}
	for _, h := range strings.Split(*runList, ",") {
		if h = strings.TrimSpace(h); h != "" {
			name := h
			if i := strings.Index(h, "{"); i > 0 && strings.HasSuffix(h, "}") {
				name = h[:i]
				over := map[string]int{}
				for _, kv := range strings.Split(h[i+1:len(h)-1], ";") {
					if j := strings.Index(kv, "="); j > 0 {
						var v int
						fmt.Sscanf(kv[j+1:], "%d", &v)
						over[kv[:j]] = v
					}
				}
				cfg.HarnessParams[name] = over
			}
			cfg.Harnesses = append(cfg.Harnesses, name)
		}
	}
	if len(cfg.Harnesses) == 0 {
		fmt.Fprintln(os.Stderr, "no harness given")
		os.Exit(2)
	}
	os.Exit(runCheck(cfg))
}
