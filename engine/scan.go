package main

// Static SSA scans over the module's packages, regenerated from /repo's source on every run.

import (
	"fmt"
	"go/types"
	"sort"
	"strings"

	"golang.org/x/tools/go/ssa"
)

type scanSite struct {
	Kind string `json:"kind"`
	Func string `json:"func"`
	Pos  string `json:"pos"`
}

func (p *Program) moduleFunctions() []*ssa.Function {
	var out []*ssa.Function
	seen := map[*ssa.Function]bool{}
	var add func(f *ssa.Function)
	add = func(f *ssa.Function) {
		if f == nil || seen[f] {
			return
		}
		seen[f] = true
		out = append(out, f)
		for _, af := range f.AnonFuncs {
			add(af)
		}
	}
	for _, pkg := range p.ssaProg.AllPackages() {
		path := pkg.Pkg.Path()
		if !p.inModule(path) || strings.Contains(path, "/simulation") || strings.Contains(path, "/testutil") {
			continue
		}
		for _, m := range pkg.Members {
			switch x := m.(type) {
			case *ssa.Function:
				add(x)
			case *ssa.Type:
				for _, t := range []types.Type{x.Type(), types.NewPointer(x.Type())} {
					ms := p.ssaProg.MethodSets.MethodSet(t)
					for i := 0; i < ms.Len(); i++ {
						if f := p.ssaProg.MethodValue(ms.At(i)); f != nil && f.Pkg == pkg {
							add(f)
						}
					}
				}
			}
		}
	}
	return out
}

// scanNondet lists sources of nondeterminism in non-simulation module code:
// ranges over maps, go statements, selects, wall-clock and random sources.
func (p *Program) scanNondet() []scanSite {
	var sites []scanSite
	for _, f := range p.moduleFunctions() {
		if f.Blocks == nil {
			continue
		}
		pos := func(in ssa.Instruction) string {
			ps := p.fset.Position(in.Pos())
			return fmt.Sprintf("%s:%d", shortFile(ps.Filename), ps.Line)
		}
		for _, b := range f.Blocks {
			for _, in := range b.Instrs {
				switch x := in.(type) {
				case *ssa.Range:
					if _, ok := x.X.Type().Underlying().(*types.Map); ok {
						sites = append(sites, scanSite{"map-range", f.String(), pos(in)})
					}
				case *ssa.Go:
					sites = append(sites, scanSite{"go", f.String(), pos(in)})
				case *ssa.Select:
					sites = append(sites, scanSite{"select", f.String(), pos(in)})
				case ssa.CallInstruction:
					if callee := x.Common().StaticCallee(); callee != nil {
						name := callee.String()
						if callee.Name() == "init" {
							continue // package initialiser chain
						}
						if name == "time.Now" || strings.HasPrefix(name, "math/rand.") || strings.HasPrefix(name, "(*math/rand.") || strings.HasPrefix(name, "maps.Keys") || strings.HasPrefix(name, "golang.org/x/exp/maps.") {
							sites = append(sites, scanSite{"call:" + name, f.String(), pos(in)})
						}
					}
				}
			}
		}
	}
	sort.Slice(sites, func(i, j int) bool { return sites[i].Pos < sites[j].Pos })
	return sites
}

// scanBankCalls lists calls that create or destroy coins (C02: must be absent).
func (p *Program) scanBankCalls() []scanSite {
	var sites []scanSite
	bad := map[string]bool{"MintCoins": true, "BurnCoins": true, "SendCoinsFromModuleToAccount": true, "SendCoinsFromAccountToModule": true, "SendCoinsFromModuleToModule": true}
	for _, f := range p.moduleFunctions() {
		if f.Blocks == nil {
			continue
		}
		for _, b := range f.Blocks {
			for _, in := range b.Instrs {
				if ci, ok := in.(ssa.CallInstruction); ok {
					c := ci.Common()
					if c.Method != nil && bad[c.Method.Name()] {
						ps := p.fset.Position(in.Pos())
						sites = append(sites, scanSite{"bank:" + c.Method.Name(), f.String(), fmt.Sprintf("%s:%d", shortFile(ps.Filename), ps.Line)})
					}
				}
			}
		}
	}
	return sites
}
