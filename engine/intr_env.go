package main

// Environment models: collections stores, sdk.Context, events, errors, time,
// addresses, formatting. See DESIGN.md §2.3.

import (
	"fmt"
	"go/types"
	"math/big"
	"regexp"
	"strconv"
	"strings"
	"time"

	"golang.org/x/tools/go/ssa"
)

type collEntry struct {
	key Value
	val Value
}

type Coll struct {
	id      int
	name    string
	kind    string // "map", "item", "seq"
	entries []collEntry
	writes  int
}

type CollVal struct {
	id int
}

type PairVal struct {
	a, b Value
	hasB bool
}

type rangeBound struct {
	key       Value
	inclusive bool
}

type RangeVal struct {
	prefix Value // full-key prefix on the first component of a pair key (nil = none)
	until  Value // collections.NewPrefixUntilPairRange: no start; every first component below it, bounds apply within it
	start  *rangeBound
	end    *rangeBound
	desc   bool
}

type CtxVal struct {
	blockTime *TimeVal
	height    *Term
}

type eventRec struct {
	typ   Value
	attrs []Value
}

type storeSnap struct {
	colls  [][]collEntry
	events int
}

type EnvState struct {
	snaps    []storeSnap
	colls    []*Coll
	events   []eventRec
	writeLog []string
	nowSeq   int
}

func newEnvState() *EnvState { return &EnvState{} }

func (e *Exec) coll(v Value, what string) *Coll {
	cv, ok := v.(*CollVal)
	if !ok {
		panic(abortRun{kind: "error", msg: what + ": receiver is not a modelled collection: " + describe(v)})
	}
	return e.env.colls[cv.id]
}

func (e *Exec) newColl(kind, name string) *CollVal {
	c := &Coll{id: len(e.env.colls), name: name, kind: kind}
	e.env.colls = append(e.env.colls, c)
	return &CollVal{id: c.id}
}

// keyCmp orders two keys; forks when the order is not determined by the path.
func (e *Exec) keyCmp(a, b Value) int {
	tc := e.tc
	switch x := a.(type) {
	case *Term:
		y := b.(*Term)
		if e.branch(tc.Eq(x, y)) {
			return 0
		}
		if e.branch(tc.Lt(x, y)) {
			return -1
		}
		return 1
	case *TimeVal:
		y := b.(*TimeVal)
		if e.branch(tc.Eq(x.ns, y.ns)) {
			return 0
		}
		if e.branch(tc.Lt(x.ns, y.ns)) {
			return -1
		}
		return 1
	case *PairVal:
		y := b.(*PairVal)
		if c := e.keyCmp(x.a, y.a); c != 0 {
			return c
		}
		return e.keyCmp(x.b, y.b)
	case Slice:
		y := b.(Slice)
		// address keys in a pair are length-prefixed: shorter sorts first, then bytewise
		if len(x.data) != len(y.data) {
			if len(x.data) < len(y.data) {
				return -1
			}
			return 1
		}
		for i := range x.data {
			xi, yi := e.concreteInt(x.data[i], "key byte"), e.concreteInt(y.data[i], "key byte")
			if xi != yi {
				if xi < yi {
					return -1
				}
				return 1
			}
		}
		return 0
	case string:
		return strings.Compare(x, b.(string))
	}
	panic(abortRun{kind: "unsupported", msg: "collection key of kind " + describe(a)})
}

// cmpToBound compares a stored key with a range bound; a pair bound without a
// second component (collections.PairPrefix) compares on the first component only.
func (e *Exec) cmpToBound(key, bound Value) int {
	if bp, ok := bound.(*PairVal); ok && !bp.hasB {
		kp, isPair := key.(*PairVal)
		if !isPair {
			panic(abortRun{kind: "error", msg: "pair prefix bound on a non-pair key"})
		}
		return e.keyCmp(kp.a, bp.a)
	}
	if kp, ok := key.(*PairVal); ok {
		if _, boundIsPair := bound.(*PairVal); !boundIsPair {
			// PairRange bound on the second component (within a prefix)
			return e.keyCmp(kp.b, bound)
		}
	}
	return e.keyCmp(key, bound)
}

func (e *Exec) inRange(rv *RangeVal, key Value) bool {
	if rv.prefix != nil {
		pk, isPair := key.(*PairVal)
		if !isPair {
			panic(abortRun{kind: "error", msg: "prefixed range over non-pair key"})
		}
		if !e.branch(e.valEq(pk.a, rv.prefix)) {
			return false
		}
	}
	if rv.until != nil {
		pk, isPair := key.(*PairVal)
		if !isPair {
			panic(abortRun{kind: "error", msg: "prefix-until range over non-pair key"})
		}
		if c := e.keyCmp(pk.a, rv.until); c < 0 {
			return true // the range has no start: all lower first components are inside
		} else if c > 0 {
			return false
		}
	}
	if rv.start != nil {
		c := e.cmpToBound(key, rv.start.key)
		if c < 0 || (c == 0 && !rv.start.inclusive) {
			return false
		}
	}
	if rv.end != nil {
		c := e.cmpToBound(key, rv.end.key)
		if c > 0 || (c == 0 && !rv.end.inclusive) {
			return false
		}
	}
	return true
}

func (e *Exec) collFind(c *Coll, key Value) (int, bool) {
	// entries are kept sorted; linear scan (sizes are tiny)
	for i := range c.entries {
		if e.keyCmp(c.entries[i].key, key) == 0 {
			return i, true
		}
	}
	return -1, false
}

func (e *Exec) collSet(c *Coll, key, val Value) {
	c.writes++
	e.env.writeLog = append(e.env.writeLog, c.name)
	val = deepCopy(val, map[Ptr]Ptr{})
	key = deepCopy(key, map[Ptr]Ptr{})
	pos := len(c.entries)
	for i := range c.entries {
		cmp := e.keyCmp(c.entries[i].key, key)
		if cmp == 0 {
			c.entries[i].val = val
			return
		}
		if cmp > 0 {
			pos = i
			break
		}
	}
	c.entries = append(c.entries, collEntry{})
	copy(c.entries[pos+1:], c.entries[pos:])
	c.entries[pos] = collEntry{key: key, val: val}
}

func notFoundErr() Value {
	return Iface{t: errValType, v: &ErrVal{wraps: &ErrVal{root: "cosmossdk.io/collections.ErrNotFound"}, chain: []string{"key not found"}}}
}

func resultZero(fn *ssa.Function, i int) Value {
	return zeroValue(fn.Signature.Results().At(i).Type())
}

var denomRe = regexp.MustCompile(`^[a-zA-Z][a-zA-Z0-9/:._-]{2,127}$`)

func bytesOfSlice(e *Exec, v Value) []byte {
	s, ok := v.(Slice)
	if !ok {
		panic(abortRun{kind: "error", msg: "expected byte slice, got " + describe(v)})
	}
	out := make([]byte, len(s.data))
	for i, b := range s.data {
		out[i] = byte(e.concreteInt(b, "byte"))
	}
	return out
}

func sliceOfBytes(b []byte) Slice {
	data := make([]Value, len(b))
	for i := range b {
		data[i] = mkInt64(int64(b[i]))
	}
	return Slice{data: data}
}

func mkErr(root string, msg string) Value {
	return Iface{t: errValType, v: &ErrVal{root: root, chain: []string{msg}}}
}

func errOf(v Value) *ErrVal {
	switch x := v.(type) {
	case Iface:
		if x.t == nil {
			return nil
		}
		if ev, ok := x.v.(*ErrVal); ok {
			return ev
		}
		return &ErrVal{root: "dyn:" + x.t.String()}
	case *ErrVal:
		return x
	}
	return nil
}

func errorsIs(err, target *ErrVal) bool {
	if err == nil || target == nil {
		return err == target
	}
	troot := target.Root()
	for x := err; x != nil; x = x.wraps {
		if x.wraps == nil && x.root == troot {
			return true
		}
	}
	return false
}

const bech32Prefix = "cosmos"

func accAddressFromBech32(s string) ([]byte, string) {
	if len(strings.TrimSpace(s)) == 0 {
		return nil, "empty address string is not allowed"
	}
	hrp, bz, err := bech32Decode(s)
	if err != nil {
		return nil, "decoding bech32 failed: " + err.Error()
	}
	if hrp != bech32Prefix {
		return nil, "invalid Bech32 prefix"
	}
	if len(bz) == 0 {
		return nil, "addresses cannot be empty"
	}
	if len(bz) > 255 {
		return nil, "address max length is 255"
	}
	return bz, ""
}

func fieldIndex(t types.Type, name string) int {
	st := t.Underlying().(*types.Struct)
	for i := 0; i < st.NumFields(); i++ {
		if st.Field(i).Name() == name {
			return i
		}
	}
	panic(abortRun{kind: "error", msg: "no field " + name + " in " + t.String()})
}

func fmtArg(v Value) string {
	switch x := v.(type) {
	case Iface:
		if x.t == nil {
			return "<nil>"
		}
		return fmtArg(x.v)
	case string:
		return x
	case *Term:
		return x.ref
	case *BigVal:
		if x.isNil {
			return "<nil>"
		}
		return x.t.ref
	case *TimeVal:
		return "time:" + x.ns.ref
	case *SymStr:
		return x.String()
	case *ErrVal:
		return x.String()
	}
	return describe(v)
}

func allConcreteForFmt(args []Value) ([]interface{}, bool) {
	var out []interface{}
	for _, a := range args {
		if itf, ok := a.(Iface); ok {
			if itf.t == nil {
				out = append(out, nil)
				continue
			}
			a = itf.v
			if b, isB := itf.t.Underlying().(*types.Basic); isB {
				if t, isT := a.(*Term); isT && t.IsConst() && t.sort == SInt {
					switch b.Kind() {
					case types.Uint64, types.Uint, types.Uint32, types.Uint16, types.Uint8:
						out = append(out, t.val.Uint64())
						continue
					default:
						out = append(out, t.val.Int64())
						continue
					}
				}
			}
		}
		switch x := a.(type) {
		case string:
			out = append(out, x)
		case *Term:
			if !x.IsConst() {
				return nil, false
			}
			if x.sort == SBool {
				out = append(out, x.b)
			} else {
				out = append(out, x.val)
			}
		default:
			return nil, false
		}
	}
	return out, true
}

func init() {
	// ---------- collections ----------
	const C = pkgColl + "."
	opaqueCtor := func(name string) {
		reg(name, func(e *Exec, fn *ssa.Function, a []Value) Value { return &Opaque{name: name} })
	}
	opaqueCtor(C + "NewSchemaBuilder")
	opaqueCtor(C + "NewPrefix")
	opaqueCtor(C + "PairKeyCodec")
	opaqueCtor("github.com/cosmos/cosmos-sdk/codec.CollValue")
	opaqueCtor("github.com/cosmos/cosmos-sdk/codec.CollInterfaceValue")
	opaqueCtor("github.com/cosmos/cosmos-sdk/types.LengthPrefixedAddressKey")
	reg("(*"+C+"SchemaBuilder).Build", func(e *Exec, fn *ssa.Function, a []Value) Value {
		return Tuple{zeroValue(fn.Signature.Results().At(0).Type()), Iface{}}
	})
	reg(C+"NewMap", func(e *Exec, fn *ssa.Function, a []Value) Value {
		return e.newColl("map", strArg(a[2], "NewMap name"))
	})
	reg(C+"NewItem", func(e *Exec, fn *ssa.Function, a []Value) Value {
		return e.newColl("item", strArg(a[2], "NewItem name"))
	})
	reg(C+"NewSequence", func(e *Exec, fn *ssa.Function, a []Value) Value {
		return e.newColl("seq", strArg(a[2], "NewSequence name"))
	})
	reg(C+"Join", func(e *Exec, fn *ssa.Function, a []Value) Value {
		return &PairVal{a: a[0], b: a[1], hasB: true}
	})
	reg("("+C+"Pair[K1, K2]).K1", func(e *Exec, fn *ssa.Function, a []Value) Value { return a[0].(*PairVal).a })
	reg("("+C+"Pair[K1, K2]).K2", func(e *Exec, fn *ssa.Function, a []Value) Value { return a[0].(*PairVal).b })
	reg(C+"NewPrefixedPairRange", func(e *Exec, fn *ssa.Function, a []Value) Value {
		return &RangeVal{prefix: a[0]}
	})
	reg(C+"NewPrefixUntilPairRange", func(e *Exec, fn *ssa.Function, a []Value) Value {
		return &RangeVal{until: a[0]}
	})
	const MP = "(" + C + "Map[K, V])."
	reg(MP+"Get", func(e *Exec, fn *ssa.Function, a []Value) Value {
		c := e.coll(a[0], "Map.Get")
		if i, ok := e.collFind(c, a[2]); ok {
			return Tuple{deepCopy(c.entries[i].val, map[Ptr]Ptr{}), Iface{}}
		}
		return Tuple{resultZero(fn, 0), notFoundErr()}
	})
	reg(MP+"Has", func(e *Exec, fn *ssa.Function, a []Value) Value {
		c := e.coll(a[0], "Map.Has")
		_, ok := e.collFind(c, a[2])
		return Tuple{mkBool(ok), Iface{}}
	})
	reg(MP+"Set", func(e *Exec, fn *ssa.Function, a []Value) Value {
		c := e.coll(a[0], "Map.Set")
		e.collSet(c, a[2], a[3])
		return Iface{}
	})
	reg(MP+"Remove", func(e *Exec, fn *ssa.Function, a []Value) Value {
		c := e.coll(a[0], "Map.Remove")
		c.writes++
		e.env.writeLog = append(e.env.writeLog, c.name+":remove")
		if i, ok := e.collFind(c, a[2]); ok {
			c.entries = append(c.entries[:i:i], c.entries[i+1:]...)
		}
		return Iface{}
	})
	reg(MP+"Walk", func(e *Exec, fn *ssa.Function, a []Value) Value {
		c := e.coll(a[0], "Map.Walk")
		var rv *RangeVal
		if itf, ok := a[2].(Iface); ok && itf.t != nil {
			r, isR := itf.v.(*RangeVal)
			if !isR {
				if p, isP := itf.v.(Ptr); isP && p != nil {
					r, isR = (*p).(*RangeVal)
				}
			}
			if !isR {
				panic(abortRun{kind: "unsupported", msg: "Map.Walk with ranger " + describe(itf.v)})
			}
			rv = r
		}
		snapshot := append([]collEntry(nil), c.entries...)
		if rv != nil && rv.desc {
			for i, j := 0, len(snapshot)-1; i < j; i, j = i+1, j-1 {
				snapshot[i], snapshot[j] = snapshot[j], snapshot[i]
			}
		}
		for _, en := range snapshot {
			if rv != nil && !e.inRange(rv, en.key) {
				continue
			}
			res := e.call(a[3], []Value{deepCopy(en.key, map[Ptr]Ptr{}), deepCopy(en.val, map[Ptr]Ptr{})}, nil).(Tuple)
			if errI := res[1].(Iface); errI.t != nil {
				return errI
			}
			if e.branch(res[0].(*Term)) {
				break
			}
		}
		return Iface{}
	})
	// generic ranges: new(collections.Range[K]).Prefix/StartInclusive/... and pair prefixes
	reg(C+"PairPrefix", func(e *Exec, fn *ssa.Function, a []Value) Value {
		return &PairVal{a: a[0], hasB: false}
	})
	rangeOf := func(e *Exec, recv Value) (*RangeVal, Value) {
		if r, isR := recv.(*RangeVal); isR {
			return r, r // *PairRange built by NewPrefixedPairRange / NewPrefixUntilPairRange
		}
		p, ok := recv.(Ptr)
		if !ok || p == nil {
			panic(abortRun{kind: "unsupported", msg: "range builder on " + describe(recv)})
		}
		if r, isR := (*p).(*RangeVal); isR {
			return r, p
		}
		r := &RangeVal{}
		*p = r
		return r, p
	}
	for _, recvT := range []string{"(*" + C + "Range[K]).", "(*" + C + "PairRange[K1, K2])."} {
		recvT := recvT
		reg(recvT+"Prefix", func(e *Exec, fn *ssa.Function, a []Value) Value {
			r, p := rangeOf(e, a[0])
			r.start, r.end = &rangeBound{key: a[1], inclusive: true}, &rangeBound{key: a[1], inclusive: true}
			return p
		})
		reg(recvT+"StartInclusive", func(e *Exec, fn *ssa.Function, a []Value) Value {
			r, p := rangeOf(e, a[0])
			if r.until != nil {
				// the library dereferences the (nil) start key of a prefix-until range
				panic(&goPanic{val: "runtime error: invalid memory address or nil pointer dereference"})
			}
			r.start = &rangeBound{key: a[1], inclusive: true}
			return p
		})
		reg(recvT+"StartExclusive", func(e *Exec, fn *ssa.Function, a []Value) Value {
			r, p := rangeOf(e, a[0])
			if r.until != nil {
				// the library dereferences the (nil) start key of a prefix-until range
				panic(&goPanic{val: "runtime error: invalid memory address or nil pointer dereference"})
			}
			r.start = &rangeBound{key: a[1], inclusive: false}
			return p
		})
		reg(recvT+"EndInclusive", func(e *Exec, fn *ssa.Function, a []Value) Value {
			r, p := rangeOf(e, a[0])
			r.end = &rangeBound{key: a[1], inclusive: true}
			return p
		})
		reg(recvT+"EndExclusive", func(e *Exec, fn *ssa.Function, a []Value) Value {
			r, p := rangeOf(e, a[0])
			r.end = &rangeBound{key: a[1], inclusive: false}
			return p
		})
		reg(recvT+"Descending", func(e *Exec, fn *ssa.Function, a []Value) Value {
			r, p := rangeOf(e, a[0])
			r.desc = true
			return p
		})
	}
	const IT = "(" + C + "Item[V])."
	reg(IT+"Get", func(e *Exec, fn *ssa.Function, a []Value) Value {
		c := e.coll(a[0], "Item.Get")
		if len(c.entries) == 1 {
			return Tuple{deepCopy(c.entries[0].val, map[Ptr]Ptr{}), Iface{}}
		}
		return Tuple{resultZero(fn, 0), notFoundErr()}
	})
	reg(IT+"Set", func(e *Exec, fn *ssa.Function, a []Value) Value {
		c := e.coll(a[0], "Item.Set")
		c.writes++
		e.env.writeLog = append(e.env.writeLog, c.name)
		c.entries = []collEntry{{key: "item", val: deepCopy(a[2], map[Ptr]Ptr{})}}
		return Iface{}
	})
	reg(IT+"Has", func(e *Exec, fn *ssa.Function, a []Value) Value {
		c := e.coll(a[0], "Item.Has")
		return Tuple{mkBool(len(c.entries) == 1), Iface{}}
	})
	const SQ = "(" + C + "Sequence)."
	seqPeek := func(e *Exec, c *Coll) *Term {
		if len(c.entries) == 1 {
			return c.entries[0].val.(*Term)
		}
		return tZero
	}
	reg(SQ+"Peek", func(e *Exec, fn *ssa.Function, a []Value) Value {
		return Tuple{seqPeek(e, e.coll(a[0], "Sequence.Peek")), Iface{}}
	})
	reg(SQ+"Next", func(e *Exec, fn *ssa.Function, a []Value) Value {
		c := e.coll(a[0], "Sequence.Next")
		cur := seqPeek(e, c)
		c.writes++
		e.env.writeLog = append(e.env.writeLog, c.name)
		c.entries = []collEntry{{key: "item", val: e.tc.wrapUnsigned(e.tc.Add(cur, tOne), 64)}}
		return Tuple{cur, Iface{}}
	})
	reg(SQ+"Set", func(e *Exec, fn *ssa.Function, a []Value) Value {
		c := e.coll(a[0], "Sequence.Set")
		c.writes++
		e.env.writeLog = append(e.env.writeLog, c.name)
		c.entries = []collEntry{{key: "item", val: a[2]}}
		return Iface{}
	})

	// ---------- query pagination (modelled as: walk [prefix] in key order, keep if predicate, transform) ----------
	const Q = "github.com/cosmos/cosmos-sdk/types/query."
	reg(Q+"WithCollectionPaginationPairPrefix", func(e *Exec, fn *ssa.Function, a []Value) Value {
		return &Opaque{name: "pair-prefix", data: a[0]}
	})
	paginate := func(e *Exec, fn *ssa.Function, coll Value, pageReq Value, pred Value, transform Value, opts Value) Value {
		if p, ok := pageReq.(Ptr); ok && p != nil {
			panic(abortRun{kind: "unsupported", msg: "pagination request other than nil (page slicing is inside the SDK paginator, outside the claim)"})
		}
		c := e.coll(coll, "CollectionPaginate")
		var prefix Value
		if os, ok := opts.(Slice); ok {
			for _, o := range os.data {
				if op, isO := o.(*Opaque); isO && op.name == "pair-prefix" {
					prefix = op.data.(Value)
				}
			}
		}
		resT := fn.Signature.Results().At(0).Type()
		out := Slice{data: []Value{}}
		snapshot := append([]collEntry(nil), c.entries...)
		for _, en := range snapshot {
			if prefix != nil {
				if !e.branch(e.valEq(en.key.(*PairVal).a, prefix)) {
					continue
				}
			}
			k, v := deepCopy(en.key, map[Ptr]Ptr{}), deepCopy(en.val, map[Ptr]Ptr{})
			if pred != nil {
				r := e.call(pred, []Value{k, v}, nil).(Tuple)
				if errI := r[1].(Iface); errI.t != nil {
					return Tuple{zeroValue(resT), Ptr(nil), errI}
				}
				if !e.branch(r[0].(*Term)) {
					continue
				}
			}
			r := e.call(transform, []Value{k, v}, nil).(Tuple)
			if errI := r[1].(Iface); errI.t != nil {
				return Tuple{zeroValue(resT), Ptr(nil), errI}
			}
			out.data = append(out.data, r[0])
		}
		if len(out.data) == 0 {
			out = Slice{null: true}
		}
		return Tuple{out, Ptr(nil), Iface{}}
	}
	reg(Q+"CollectionPaginate", func(e *Exec, fn *ssa.Function, a []Value) Value {
		return paginate(e, fn, a[1], a[2], nil, a[3], a[4])
	})
	reg(Q+"CollectionFilteredPaginate", func(e *Exec, fn *ssa.Function, a []Value) Value {
		return paginate(e, fn, a[1], a[2], a[3], a[4], a[5])
	})

	// ---------- sdk.Context / events ----------
	const T = "github.com/cosmos/cosmos-sdk/types."
	reg(pkgND+".NewContext", func(e *Exec, fn *ssa.Function, a []Value) Value {
		return Iface{t: getOpaqueType("sdk.Context"), v: &CtxVal{blockTime: a[0].(*TimeVal), height: tOne}}
	})
	reg(T+"UnwrapSDKContext", func(e *Exec, fn *ssa.Function, a []Value) Value {
		itf, ok := a[0].(Iface)
		if !ok || itf.t == nil {
			panic(&goPanic{val: "UnwrapSDKContext of nil context"})
		}
		cv, ok := itf.v.(*CtxVal)
		if !ok {
			panic(abortRun{kind: "unsupported", msg: "UnwrapSDKContext of " + describe(itf.v)})
		}
		return cv
	})
	reg(T+"WrapSDKContext", func(e *Exec, fn *ssa.Function, a []Value) Value {
		return Iface{t: getOpaqueType("sdk.Context"), v: a[0]}
	})
	reg("("+T+"Context).BlockTime", func(e *Exec, fn *ssa.Function, a []Value) Value {
		return a[0].(*CtxVal).blockTime
	})
	reg("("+T+"Context).BlockHeight", func(e *Exec, fn *ssa.Function, a []Value) Value {
		return a[0].(*CtxVal).height
	})
	reg("("+T+"Context).WithBlockTime", func(e *Exec, fn *ssa.Function, a []Value) Value {
		return &CtxVal{blockTime: a[1].(*TimeVal), height: a[0].(*CtxVal).height}
	})
	reg("("+T+"Context).EventManager", func(e *Exec, fn *ssa.Function, a []Value) Value {
		return Iface{t: getOpaqueType("EventManager"), v: &Opaque{name: "EventManager"}}
	})
	emitEvents := func(e *Exec, fn *ssa.Function, a []Value) Value {
		for _, ev := range a[1].(Slice).data {
			er := ev.(*Opaque).data.(eventRec)
			e.env.events = append(e.env.events, er)
		}
		return nil
	}
	emitEvent := func(e *Exec, fn *ssa.Function, a []Value) Value {
		e.env.events = append(e.env.events, a[1].(*Opaque).data.(eventRec))
		return nil
	}
	reg("(*"+T+"EventManager).EmitEvents", emitEvents)
	reg("(*"+T+"EventManager).EmitEvent", emitEvent)
	reg("EventManager.EmitEvents", emitEvents)
	reg("EventManager.EmitEvent", emitEvent)
	reg(T+"NewEvent", func(e *Exec, fn *ssa.Function, a []Value) Value {
		er := eventRec{typ: a[0]}
		for _, at := range a[1].(Slice).data {
			er.attrs = append(er.attrs, at)
		}
		return &Opaque{name: "Event", data: er}
	})
	reg(T+"NewAttribute", func(e *Exec, fn *ssa.Function, a []Value) Value {
		return &Opaque{name: "Attribute", data: [2]Value{a[0], a[1]}}
	})
	reg(T+"ValidateDenom", func(e *Exec, fn *ssa.Function, a []Value) Value {
		d := strArg(a[0], "ValidateDenom")
		if !denomRe.MatchString(d) {
			return mkErr("sdk.invalid-denom", "invalid denom: "+d)
		}
		return Iface{}
	})
	reg(T+"AccAddressFromBech32", func(e *Exec, fn *ssa.Function, a []Value) Value {
		s := strArg(a[0], "AccAddressFromBech32")
		bz, errMsg := accAddressFromBech32(s)
		if errMsg != "" {
			return Tuple{Slice{null: true}, mkErr("sdk.bech32", errMsg)}
		}
		return Tuple{sliceOfBytes(bz), Iface{}}
	})
	reg(T+"MustAccAddressFromBech32", func(e *Exec, fn *ssa.Function, a []Value) Value {
		s := strArg(a[0], "MustAccAddressFromBech32")
		bz, errMsg := accAddressFromBech32(s)
		if errMsg != "" {
			panic(&goPanic{val: errMsg})
		}
		return sliceOfBytes(bz)
	})
	reg("("+T+"AccAddress).String", func(e *Exec, fn *ssa.Function, a []Value) Value {
		bz := bytesOfSlice(e, a[0])
		if len(bz) == 0 {
			return ""
		}
		s, err := bech32Encode(bech32Prefix, bz)
		if err != nil {
			panic(&goPanic{val: err.Error()})
		}
		return s
	})
	reg("github.com/cosmos/cosmos-sdk/types/address.Module", func(e *Exec, fn *ssa.Function, a []Value) Value {
		name := strArg(a[0], "address.Module")
		var keys [][]byte
		for _, k := range a[1].(Slice).data {
			keys = append(keys, bytesOfSlice(e, k))
		}
		return sliceOfBytes(addressModule(name, keys...))
	})
	reg("github.com/cometbft/cometbft/crypto.AddressHash", func(e *Exec, fn *ssa.Function, a []Value) Value {
		return sliceOfBytes(addressModule(string(bytesOfSlice(e, a[0]))))
	})
	reg("github.com/cosmos/cosmos-sdk/telemetry.ModuleMeasureSince", func(e *Exec, fn *ssa.Function, a []Value) Value { return nil })
	reg("github.com/cosmos/cosmos-sdk/telemetry.IncrCounter", func(e *Exec, fn *ssa.Function, a []Value) Value { return nil })
	reg("github.com/cosmos/cosmos-sdk/types.MsgTypeURL", func(e *Exec, fn *ssa.Function, a []Value) Value { return "/msg" })

	reg("github.com/cosmos/gogoproto/proto.EnumName", func(e *Exec, fn *ssa.Function, a []Value) Value {
		m, _ := a[0].(*MapVal)
		v := a[1].(*Term)
		if m != nil {
			for i, k := range m.keys {
				c := e.tc.Eq(k.(*Term), v)
				if c.IsConst() {
					if c.b {
						return m.vals[i]
					}
					continue
				}
				if e.branch(c) {
					return m.vals[i]
				}
			}
		}
		if v.IsConst() {
			return v.val.String()
		}
		return &SymStr{kind: "int", t: v}
	})

	// codec Any
	reg("github.com/cosmos/cosmos-sdk/codec/types.NewAnyWithValue", func(e *Exec, fn *ssa.Function, a []Value) Value {
		itf := a[0].(Iface)
		if itf.t == nil {
			return Tuple{Ptr(nil), mkErr("sdk.ErrPackAny", "Expecting non nil value to create a new Any")}
		}
		anyT := fn.Signature.Results().At(0).Type().(*types.Pointer).Elem()
		s := zeroValue(anyT).(Struct)
		name := itf.t.String()
		if pt, ok := itf.t.(*types.Pointer); ok {
			name = pt.Elem().String()
		}
		s[fieldIndex(anyT, "TypeUrl")] = "/" + name
		s[fieldIndex(anyT, "cachedValue")] = Iface{t: itf.t, v: itf.v}
		p := new(Value)
		*p = s
		return Tuple{Ptr(p), Iface{}}
	})

	// ---------- errors ----------
	wrapf := func(e *Exec, fn *ssa.Function, a []Value) Value {
		inner := errOf(a[0])
		if inner == nil {
			return Iface{}
		}
		msg := ""
		if len(a) > 1 {
			msg = fmtArg(a[1])
		}
		return Iface{t: errValType, v: &ErrVal{wraps: inner, chain: []string{msg}}}
	}
	reg("cosmossdk.io/errors.Wrap", wrapf)
	reg("cosmossdk.io/errors.Wrapf", wrapf)
	reg("(*cosmossdk.io/errors.Error).Wrap", wrapf)
	reg("(*cosmossdk.io/errors.Error).Wrapf", wrapf)
	reg("cosmossdk.io/errors.Register", func(e *Exec, fn *ssa.Function, a []Value) Value {
		return &ErrVal{root: fmt.Sprintf("registered:%s:%s", fmtArg(a[0]), fmtArg(a[1]))}
	})
	reg("errors.Is", func(e *Exec, fn *ssa.Function, a []Value) Value {
		return mkBool(errorsIs(errOf(a[0]), errOf(a[1])))
	})
	reg("cosmossdk.io/errors.IsOf", func(e *Exec, fn *ssa.Function, a []Value) Value {
		er := errOf(a[0])
		for _, t := range a[1].(Slice).data {
			if errorsIs(er, errOf(t)) {
				return tTrue
			}
		}
		return tFalse
	})
	reg("errors.New", func(e *Exec, fn *ssa.Function, a []Value) Value {
		return mkErr("errors.New:"+fmtArg(a[0]), fmtArg(a[0]))
	})
	reg("err.Error", func(e *Exec, fn *ssa.Function, a []Value) Value {
		ev := a[0].(*ErrVal)
		return "error:" + ev.Root()
	})
	reg("err.Unwrap", func(e *Exec, fn *ssa.Function, a []Value) Value {
		ev := a[0].(*ErrVal)
		if ev.wraps == nil {
			return Iface{}
		}
		return Iface{t: errValType, v: ev.wraps}
	})
	reg("fmt.Errorf", func(e *Exec, fn *ssa.Function, a []Value) Value {
		format := strArg(a[0], "fmt.Errorf format")
		ev := &ErrVal{root: "fmt.Errorf:" + format, chain: []string{format}}
		if strings.Contains(format, "%w") {
			for _, arg := range a[1].(Slice).data {
				if inner := errOf(arg); inner != nil {
					if itf, ok := arg.(Iface); ok && itf.t == errValType {
						ev = &ErrVal{wraps: inner, chain: []string{format}}
						break
					}
				}
			}
		}
		return Iface{t: errValType, v: ev}
	})
	grpcErr := func(e *Exec, fn *ssa.Function, a []Value) Value {
		return mkErr("grpc-status:"+fmtArg(a[0]), fmtArg(a[1]))
	}
	reg("google.golang.org/grpc/status.Error", grpcErr)
	reg("google.golang.org/grpc/status.Errorf", grpcErr)

	// ---------- fmt / strconv / strings ----------
	reg("fmt.Sprintf", func(e *Exec, fn *ssa.Function, a []Value) Value {
		format := strArg(a[0], "fmt.Sprintf format")
		args := a[1].(Slice).data
		if conc, ok := allConcreteForFmt(args); ok {
			return fmt.Sprintf(format, conc...)
		}
		var parts []string
		for _, x := range args {
			parts = append(parts, fmtArg(x))
		}
		return &SymStr{kind: "fmt", t: tZero, rest: format + "‹" + strings.Join(parts, "›‹") + "›"}
	})
	reg("fmt.Sprint", func(e *Exec, fn *ssa.Function, a []Value) Value {
		args := a[0].(Slice).data
		if conc, ok := allConcreteForFmt(args); ok {
			return fmt.Sprint(conc...)
		}
		if len(args) == 1 {
			if itf, ok := args[0].(Iface); ok {
				if t, isT := itf.v.(*Term); isT && t.sort == SInt {
					return &SymStr{kind: "uint", t: t}
				}
			}
		}
		var parts []string
		for _, x := range args {
			parts = append(parts, fmtArg(x))
		}
		return &SymStr{kind: "fmt", t: tZero, rest: "sprint‹" + strings.Join(parts, "›‹") + "›"}
	})
	reg("fmt.Println", func(e *Exec, fn *ssa.Function, a []Value) Value { return Tuple{tZero, Iface{}} })
	reg("fmt.Printf", func(e *Exec, fn *ssa.Function, a []Value) Value { return Tuple{tZero, Iface{}} })
	reg("strconv.FormatUint", func(e *Exec, fn *ssa.Function, a []Value) Value {
		t := a[0].(*Term)
		base := e.concreteInt(a[1], "base")
		if t.IsConst() {
			return strconv.FormatUint(t.val.Uint64(), base)
		}
		return &SymStr{kind: "uint", t: t}
	})
	reg("strconv.Itoa", func(e *Exec, fn *ssa.Function, a []Value) Value {
		t := a[0].(*Term)
		if t.IsConst() {
			return strconv.Itoa(int(t.val.Int64()))
		}
		return &SymStr{kind: "uint", t: t}
	})
	reg("strconv.ParseBool", func(e *Exec, fn *ssa.Function, a []Value) Value {
		b, err := strconv.ParseBool(strArg(a[0], "ParseBool"))
		if err != nil {
			return Tuple{tFalse, mkErr("strconv.ParseBool", err.Error())}
		}
		return Tuple{mkBool(b), Iface{}}
	})
	reg("strings.TrimSpace", func(e *Exec, fn *ssa.Function, a []Value) Value {
		if s, ok := a[0].(string); ok {
			return strings.TrimSpace(s)
		}
		return a[0]
	})

	// ---------- time ----------
	const TM = "(time.Time)."
	tcmp := func(name string, f func(e *Exec, x, y *Term) *Term) {
		reg(TM+name, func(e *Exec, fn *ssa.Function, a []Value) Value {
			return f(e, a[0].(*TimeVal).ns, a[1].(*TimeVal).ns)
		})
	}
	tcmp("After", func(e *Exec, x, y *Term) *Term { return e.tc.Lt(y, x) })
	tcmp("Before", func(e *Exec, x, y *Term) *Term { return e.tc.Lt(x, y) })
	tcmp("Equal", func(e *Exec, x, y *Term) *Term { return e.tc.Eq(x, y) })
	tcmp("Compare", func(e *Exec, x, y *Term) *Term {
		return e.tc.Ite(e.tc.Lt(x, y), mkInt64(-1), e.tc.Ite(e.tc.Eq(x, y), tZero, tOne))
	})
	reg(TM+"IsZero", func(e *Exec, fn *ssa.Function, a []Value) Value {
		return e.tc.Eq(a[0].(*TimeVal).ns, mkInt(timeZeroNs))
	})
	reg(TM+"AddDate", func(e *Exec, fn *ssa.Function, a []Value) Value {
		y, m := a[1].(*Term), a[2].(*Term)
		if !y.IsConst() || !m.IsConst() || y.val.Sign() != 0 || m.val.Sign() != 0 {
			panic(abortRun{kind: "unsupported", msg: "AddDate with years/months"})
		}
		dayNs := mkInt(new(big.Int).Mul(big.NewInt(86400), big.NewInt(1000000000)))
		return &TimeVal{ns: e.tc.Add(a[0].(*TimeVal).ns, e.tc.Mul(a[3].(*Term), dayNs))}
	})
	reg(TM+"Add", func(e *Exec, fn *ssa.Function, a []Value) Value {
		return &TimeVal{ns: e.tc.Add(a[0].(*TimeVal).ns, a[1].(*Term))}
	})
	reg(TM+"Sub", func(e *Exec, fn *ssa.Function, a []Value) Value {
		return e.tc.Sub(a[0].(*TimeVal).ns, a[1].(*TimeVal).ns)
	})
	reg(TM+"UnixNano", func(e *Exec, fn *ssa.Function, a []Value) Value { return a[0].(*TimeVal).ns })
	reg(TM+"Unix", func(e *Exec, fn *ssa.Function, a []Value) Value {
		return e.tc.mkFloorDiv(a[0].(*TimeVal).ns, mkInt64(1000000000))
	})
	reg(TM+"UTC", func(e *Exec, fn *ssa.Function, a []Value) Value { return a[0] })
	reg(TM+"String", func(e *Exec, fn *ssa.Function, a []Value) Value {
		t := a[0].(*TimeVal)
		if t.ns.IsConst() {
			return nsToTime(t.ns.val).String()
		}
		return &SymStr{kind: "time", t: t.ns}
	})
	reg("time.Now", func(e *Exec, fn *ssa.Function, a []Value) Value {
		e.env.nowSeq++
		return &TimeVal{ns: e.tc.Var(fmt.Sprintf("time.Now#%d", e.env.nowSeq), SInt)}
	})
	reg("time.Parse", func(e *Exec, fn *ssa.Function, a []Value) Value {
		t, err := time.Parse(strArg(a[0], "time.Parse layout"), strArg(a[1], "time.Parse value"))
		if err != nil {
			return Tuple{&TimeVal{ns: mkInt(timeZeroNs)}, mkErr("time.Parse", err.Error())}
		}
		return Tuple{&TimeVal{ns: mkInt(timeToNs(t))}, Iface{}}
	})
	reg("time.Unix", func(e *Exec, fn *ssa.Function, a []Value) Value {
		return &TimeVal{ns: e.tc.Add(e.tc.Mul(a[0].(*Term), mkInt64(1000000000)), a[1].(*Term))}
	})

	reg("context.Background", func(e *Exec, fn *ssa.Function, a []Value) Value {
		return Iface{t: getOpaqueType("context"), v: &Opaque{name: "context.Background"}}
	})
	reg("context.TODO", func(e *Exec, fn *ssa.Function, a []Value) Value {
		return Iface{t: getOpaqueType("context"), v: &Opaque{name: "context.TODO"}}
	})

	// ---------- byte slices (assembly-backed in the standard library; concrete operands only) ----------
	cmpBytes := func(e *Exec, fn *ssa.Function, a []Value) Value {
		x, y := string(bytesOfSlice(e, a[0])), string(bytesOfSlice(e, a[1]))
		return mkInt64(int64(strings.Compare(x, y)))
	}
	eqBytes := func(e *Exec, fn *ssa.Function, a []Value) Value {
		return mkBool(string(bytesOfSlice(e, a[0])) == string(bytesOfSlice(e, a[1])))
	}
	reg("internal/bytealg.Compare", cmpBytes)
	reg("bytes.Compare", cmpBytes)
	reg("bytes.Equal", eqBytes)
	reg("internal/bytealg.Equal", eqBytes)

	// ---------- sort support (reflectlite) ----------
	reg("internal/reflectlite.ValueOf", func(e *Exec, fn *ssa.Function, a []Value) Value {
		return &Opaque{name: "reflectlite.Value", data: a[0]}
	})
	reg("(internal/reflectlite.Value).Len", func(e *Exec, fn *ssa.Function, a []Value) Value {
		itf := a[0].(*Opaque).data.(Iface)
		return mkInt64(int64(len(itf.v.(Slice).data)))
	})
	reg("internal/reflectlite.Swapper", func(e *Exec, fn *ssa.Function, a []Value) Value {
		s := a[0].(Iface).v.(Slice)
		return &BoundIntrinsic{name: "swapper", recv: s}
	})
	reg("swapper", func(e *Exec, fn *ssa.Function, a []Value) Value {
		s := a[0].(Slice)
		i, j := e.concreteInt(a[1], "swap i"), e.concreteInt(a[2], "swap j")
		s.data[i], s.data[j] = s.data[j], s.data[i]
		return nil
	})
}

func timeToNs(t time.Time) *big.Int {
	v := new(big.Int).Mul(big.NewInt(t.Unix()), big.NewInt(1000000000))
	return v.Add(v, big.NewInt(int64(t.Nanosecond())))
}

func nsToTime(ns *big.Int) time.Time {
	q, r := new(big.Int).DivMod(ns, big.NewInt(1000000000), new(big.Int))
	return time.Unix(q.Int64(), r.Int64()).UTC()
}

// globalInits: package-level variables that are set by initialisers the executor does not run.
var globalInits = map[string]func(e *Exec) Value{
	modulePath + "/x/fundraising/keeper.EnableAddAllowedBidder": func(e *Exec) Value { return tFalse },
}
