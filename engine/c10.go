package main

// C10 part 3: value of a package-level switch after the package initialisers of
// everything a binary links (DESIGN §6 C10). The in-module packages of the
// binary's import closure that spell the variable are loaded from source, every
// SSA Store to the variable is listed, and the initialisers of those packages
// are executed (in dependency order) by the same symbolic executor.

import (
	"fmt"
	"go/types"
	"os"
	"os/exec"
	"path/filepath"
	"strings"

	"golang.org/x/tools/go/packages"
	"golang.org/x/tools/go/ssa"
	"golang.org/x/tools/go/ssa/ssautil"
)

type initScanResult struct {
	writers  []string
	final    Value
	pkgs     []string
	linkname []string
}

func goEnv() []string {
	return append(os.Environ(), "GOFLAGS=-mod=mod", "GOPROXY=off", "GOSUMDB=off", "GOTOOLCHAIN=local")
}

func (e *Exec) initValueOfGlobal(binaryPkg, globalFull string) *initScanResult {
	res := &initScanResult{}
	i := strings.LastIndex(globalFull, ".")
	gPkg, gName := globalFull[:i], globalFull[i+1:]
	dir := "/repo"
	cmd := exec.Command("go", "list", "-deps", "-f", "{{.ImportPath}}|{{.Dir}}|{{join .GoFiles \",\"}}", binaryPkg)
	cmd.Dir = dir
	cmd.Env = goEnv()
	out, err := cmd.Output()
	if err != nil {
		panic(abortRun{kind: "error", msg: "go list -deps failed: " + err.Error()})
	}
	var spell []string // in-module packages of the closure whose source names the variable, dependency order
	for _, l := range strings.Split(string(out), "\n") {
		f := strings.Split(l, "|")
		if len(f) != 3 || !e.prog.inModule(f[0]) {
			continue
		}
		names := false
		for _, gf := range strings.Split(f[2], ",") {
			b, rerr := os.ReadFile(filepath.Join(f[1], gf))
			if rerr != nil {
				continue
			}
			src := string(b)
			if strings.Contains(src, gName) {
				names = true
			}
			if strings.Contains(src, "go:linkname") || (strings.Contains(src, "\"unsafe\"") && !strings.HasSuffix(gf, ".pb.go") && !strings.HasSuffix(gf, ".pulsar.go")) {
				res.linkname = append(res.linkname, filepath.Join(f[1], gf))
			}
		}
		if names || f[0] == gPkg {
			spell = append(spell, f[0])
		}
	}
	res.pkgs = spell
	cfg := &packages.Config{Mode: packages.LoadAllSyntax, Dir: dir, Env: goEnv()}
	pkgs, err := packages.Load(cfg, spell...)
	if err != nil {
		panic(abortRun{kind: "error", msg: "loading closure packages: " + err.Error()})
	}
	nerr := 0
	packages.Visit(pkgs, nil, func(p *packages.Package) { nerr += len(p.Errors) })
	if nerr > 0 {
		panic(abortRun{kind: "error", msg: fmt.Sprintf("closure packages have %d load errors", nerr)})
	}
	prog, _ := ssautil.AllPackages(pkgs, ssa.InstantiateGenerics)
	byPath := map[string]*ssa.Package{}
	for _, sp := range prog.AllPackages() {
		if e.prog.inModule(sp.Pkg.Path()) {
			sp.Build()
			byPath[sp.Pkg.Path()] = sp
		}
	}
	kp := byPath[gPkg]
	if kp == nil {
		panic(abortRun{kind: "error", msg: "package of the switch not in the closure: " + gPkg})
	}
	g, _ := kp.Members[gName].(*ssa.Global)
	if g == nil {
		panic(abortRun{kind: "error", msg: "global not found: " + globalFull})
	}
	// every Store to the variable
	sub := &Program{ssaProg: prog, fset: prog.Fset, solverName: e.prog.solverName}
	for _, f := range sub.moduleFunctionsAll() {
		for _, b := range f.Blocks {
			for _, in := range b.Instrs {
				if st, ok := in.(*ssa.Store); ok && st.Addr == ssa.Value(g) {
					ps := prog.Fset.Position(st.Pos())
					res.writers = append(res.writers, fmt.Sprintf("%s (%s:%d)", f.String(), shortFile(ps.Filename), ps.Line))
				}
			}
		}
	}
	// execute the initialisers with a sub-executor over the second SSA program
	se := &Exec{prog: sub, h: e.h, tc: e.tc, solver: e.solver, known: map[*Term]bool{}, globals: map[*ssa.Global]Ptr{},
		globalOverride: map[string]Value{}, maxSteps: 5000000, enteredLocal: map[*ssa.Function]int{}, intrLocal: map[string]int{}, env: newEnvState()}
	se.pkgInited = map[*ssa.Package]bool{}
	for _, path := range spell {
		sp := byPath[path]
		if sp == nil {
			continue
		}
		se.pkgInited[sp] = true
		if initFn := sp.Func("init"); initFn != nil && initFn.Blocks != nil {
			se.runPackageInit(sp, initFn)
		}
	}
	res.final = *se.globalAddr(g)
	for f, n := range se.enteredLocal {
		e.enteredLocal[f] += n
	}
	return res
}

func (p *Program) moduleFunctionsAll() []*ssa.Function {
	var out []*ssa.Function
	seen := map[*ssa.Function]bool{}
	var add func(f *ssa.Function)
	add = func(f *ssa.Function) {
		if f == nil || seen[f] {
			return
		}
		seen[f] = true
		out = append(out, f)
		for _, af := range f.AnonFuncs {
			add(af)
		}
	}
	for _, pkg := range p.ssaProg.AllPackages() {
		if !p.inModule(pkg.Pkg.Path()) {
			continue
		}
		for _, m := range pkg.Members {
			switch x := m.(type) {
			case *ssa.Function:
				add(x)
			case *ssa.Type:
				for _, t := range []types.Type{x.Type(), types.NewPointer(x.Type())} {
					ms := p.ssaProg.MethodSets.MethodSet(t)
					for i := 0; i < ms.Len(); i++ {
						if f := p.ssaProg.MethodValue(ms.At(i)); f != nil && f.Pkg == pkg {
							add(f)
						}
					}
				}
			}
		}
	}
	return out
}

func init() {
	reg(pkgND+".InitValueBool", func(e *Exec, _ *ssa.Function, a []Value) Value {
		r := e.initValueOfGlobal(strArg(a[0], "nd.InitValueBool binary"), strArg(a[1], "nd.InitValueBool global"))
		e.h.mu.Lock()
		for _, w := range r.writers {
			e.h.intrinsics["c10-writer: "+w]++
		}
		for _, p := range r.pkgs {
			e.h.intrinsics["c10-package-initialised: "+p]++
		}
		for _, l := range r.linkname {
			e.h.intrinsics["c10-unsafe-or-linkname-file: "+l]++
		}
		e.h.mu.Unlock()
		t, ok := r.final.(*Term)
		if !ok {
			panic(abortRun{kind: "error", msg: "switch is not a boolean: " + describe(r.final)})
		}
		return t
	})
}
