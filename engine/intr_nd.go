package main

// Intrinsics for the harness-side nondeterminism API (verif/harness/nd).

import (
	"fmt"
	"math/big"

	"golang.org/x/tools/go/ssa"
)

func (h *HarnessRun) noteAssumption(a string) {
	h.mu.Lock()
	if h.assumptions == nil {
		h.assumptions = map[string]int{}
	}
	h.assumptions[a]++
	h.mu.Unlock()
}

func strArg(v Value, what string) string {
	s, ok := v.(string)
	if !ok {
		panic(abortRun{kind: "error", msg: what + ": expected concrete string, got " + describe(v)})
	}
	return s
}

func (e *Exec) rangedVar(name string, lo, hi *big.Int) *Term {
	_, existed := e.tc.varByNm[name]
	t := e.tc.Var(name, SInt)
	if !existed && e.model != nil {
		// extend the model with a default inside the declared range (the variable is fresh)
		if _, have := e.model.vals[name]; !have {
			d := big.NewInt(1)
			if lo != nil && d.Cmp(lo) < 0 {
				d = new(big.Int).Set(lo)
			}
			if lo != nil && lo.Cmp(timeLo) == 0 {
				e.timeVars++
				d = new(big.Int).Add(lo, new(big.Int).Mul(big.NewInt(int64(e.timeVars)), big.NewInt(86400000000000)))
			}
			if hi != nil && d.Cmp(hi) >= 0 {
				d = new(big.Int).Set(lo)
			}
			e.model.vals[name] = d.String()
		}
	}
	if !existed {
		if lo != nil {
			e.assertTerm(e.tc.mk("<=", SBool, mkInt(lo), t))
		}
		if hi != nil {
			e.assertTerm(e.tc.mk("<", SBool, t, mkInt(hi)))
		}
	}
	if lo != nil && lo.Sign() >= 0 {
		t.nonneg = true
		if lo.Sign() > 0 {
			t.pos = true
		}
	}
	if lo != nil && hi != nil {
		b := hi.BitLen()
		if lo.Sign() < 0 && lo.BitLen() > b {
			b = lo.BitLen()
		}
		t.bits = b
	}
	return t
}

// time range for nd.Time: [2000-01-01, 2200-01-01) in ns
var (
	timeLo = new(big.Int).Mul(big.NewInt(946684800), big.NewInt(1000000000))
	timeHi = new(big.Int).Mul(big.NewInt(7258118400), big.NewInt(1000000000))
)

func init() {
	const P = pkgND + "."
	reg(P+"Int", func(e *Exec, _ *ssa.Function, a []Value) Value {
		return mkI(e.tc.Var(strArg(a[0], "nd.Int"), SInt))
	})
	reg(P+"IntN", func(e *Exec, _ *ssa.Function, a []Value) Value {
		bits := e.concreteInt(a[1], "nd.IntN bits")
		return mkI(e.rangedVar(strArg(a[0], "nd.IntN"), big.NewInt(0), pow2(bits)))
	})
	reg(P+"Dec", func(e *Exec, _ *ssa.Function, a []Value) Value {
		e.tc.varKind[strArg(a[0], "nd.Dec")] = 'd'
		return mkD(e.tc.Var(strArg(a[0], "nd.Dec"), SInt))
	})
	reg(P+"DecN", func(e *Exec, _ *ssa.Function, a []Value) Value {
		bits := e.concreteInt(a[1], "nd.DecN bits")
		e.tc.varKind[strArg(a[0], "nd.DecN")] = 'd'
		return mkD(e.rangedVar(strArg(a[0], "nd.DecN"), big.NewInt(0), pow2(bits)))
	})
	reg(P+"IntS", func(e *Exec, _ *ssa.Function, a []Value) Value {
		bits := e.concreteInt(a[1], "nd.IntS bits")
		lim := pow2(bits)
		return mkI(e.rangedVar(strArg(a[0], "nd.IntS"), new(big.Int).Add(new(big.Int).Neg(lim), big.NewInt(1)), lim))
	})
	reg(P+"DecS", func(e *Exec, _ *ssa.Function, a []Value) Value {
		bits := e.concreteInt(a[1], "nd.DecS bits")
		e.tc.varKind[strArg(a[0], "nd.DecS")] = 'd'
		lim := pow2(bits)
		return mkD(e.rangedVar(strArg(a[0], "nd.DecS"), new(big.Int).Add(new(big.Int).Neg(lim), big.NewInt(1)), lim))
	})
	reg(P+"Time", func(e *Exec, _ *ssa.Function, a []Value) Value {
		e.tc.varKind[strArg(a[0], "nd.Time")] = 't'
		return &TimeVal{ns: e.rangedVar(strArg(a[0], "nd.Time"), timeLo, timeHi)}
	})
	reg(P+"Uint64", func(e *Exec, _ *ssa.Function, a []Value) Value {
		return e.rangedVar(strArg(a[0], "nd.Uint64"), big.NewInt(0), pow2(64))
	})
	reg(P+"Uint32", func(e *Exec, _ *ssa.Function, a []Value) Value {
		return e.rangedVar(strArg(a[0], "nd.Uint32"), big.NewInt(0), pow2(32))
	})
	reg(P+"Int64", func(e *Exec, _ *ssa.Function, a []Value) Value {
		return e.rangedVar(strArg(a[0], "nd.Int64"), new(big.Int).Neg(pow2(63)), pow2(63))
	})
	reg(P+"IntRange", func(e *Exec, _ *ssa.Function, a []Value) Value {
		lo := a[1].(*Term)
		hi := a[2].(*Term)
		if !lo.IsConst() || !hi.IsConst() {
			panic(abortRun{kind: "error", msg: "nd.IntRange bounds must be concrete"})
		}
		return e.rangedVar(strArg(a[0], "nd.IntRange"), lo.val, new(big.Int).Add(hi.val, big.NewInt(1)))
	})
	reg(P+"Bool", func(e *Exec, _ *ssa.Function, a []Value) Value {
		return e.tc.Var(strArg(a[0], "nd.Bool"), SBool)
	})
	reg(P+"Pick", func(e *Exec, _ *ssa.Function, a []Value) Value {
		return mkInt64(int64(e.pick(strArg(a[0], "nd.Pick"), e.concreteInt(a[1], "nd.Pick n"))))
	})
	reg(P+"Assume", func(e *Exec, _ *ssa.Function, a []Value) Value {
		e.assume(a[0].(*Term))
		return nil
	})
	reg(P+"Assert", func(e *Exec, _ *ssa.Function, a []Value) Value {
		e.doAssert(strArg(a[0], "nd.Assert label"), a[1].(*Term))
		return nil
	})
	reg(P+"Cover", func(e *Exec, _ *ssa.Function, a []Value) Value {
		e.doCover(strArg(a[0], "nd.Cover label"))
		return nil
	})
	reg(P+"Known", func(e *Exec, _ *ssa.Function, a []Value) Value {
		e.knownConds = append(e.knownConds, knownCond{id: strArg(a[0], "nd.Known id"), cond: a[1].(*Term)})
		return nil
	})
	reg(P+"ClearKnown", func(e *Exec, _ *ssa.Function, a []Value) Value {
		e.knownConds = nil
		return nil
	})
	reg(P+"Try", func(e *Exec, _ *ssa.Function, a []Value) (res Value) {
		res = tFalse
		depth := e.depth
		defer func() {
			if r := recover(); r != nil {
				if gp, ok := r.(*goPanic); ok {
					e.depth = depth
					e.lastPanic = fmt.Sprintf("%s at %s", describe(gp.val), gp.where)
					res = tTrue
					return
				}
				panic(r)
			}
		}()
		e.call(a[0], nil, nil)
		return tFalse
	})
	reg(P+"Observe", func(e *Exec, _ *ssa.Function, a []Value) Value {
		v := a[1]
		if itf, ok := v.(Iface); ok && itf.t != errValType && itf.t != nil {
			v = itf.v
		}
		e.observed = append(e.observed, obsRec{name: strArg(a[0], "nd.Observe name"), val: v})
		return nil
	})
	reg(P+"Symbolic", func(e *Exec, _ *ssa.Function, a []Value) Value { return tTrue })
	reg(P+"Tier", func(e *Exec, _ *ssa.Function, a []Value) Value {
		if e.h.tier == "thorough" {
			return tOne
		}
		return tZero
	})
	// events emitted so far (one list per execution; harnesses bracket an operation with two marks)
	reg(P+"EventMark", func(e *Exec, _ *ssa.Function, a []Value) Value {
		return mkInt64(int64(len(e.env.events)))
	})
	// StoreBranch / StoreDiscard: a branched (cache) context whose writes are thrown away: every modelled
	// collection and the event list are restored; ordinary Go memory (the interpreter's heap) is not.
	reg(P+"StoreBranch", func(e *Exec, _ *ssa.Function, a []Value) Value {
		snap := make([][]collEntry, len(e.env.colls))
		for i, c := range e.env.colls {
			snap[i] = append([]collEntry(nil), c.entries...)
		}
		e.env.snaps = append(e.env.snaps, storeSnap{colls: snap, events: len(e.env.events)})
		return nil
	})
	reg(P+"StoreDiscard", func(e *Exec, _ *ssa.Function, a []Value) Value {
		if len(e.env.snaps) == 0 {
			panic(abortRun{kind: "error", msg: "nd.StoreDiscard without nd.StoreBranch"})
		}
		sn := e.env.snaps[len(e.env.snaps)-1]
		e.env.snaps = e.env.snaps[:len(e.env.snaps)-1]
		for i, ents := range sn.colls {
			e.env.colls[i].entries = ents
		}
		for i := len(sn.colls); i < len(e.env.colls); i++ {
			e.env.colls[i].entries = nil
		}
		e.env.events = e.env.events[:sn.events]
		return nil
	})
	reg(P+"SameEvents", func(e *Exec, _ *ssa.Function, a []Value) Value {
		a0, a1 := e.concreteInt(a[0], "nd.SameEvents"), e.concreteInt(a[1], "nd.SameEvents")
		b0, b1 := e.concreteInt(a[2], "nd.SameEvents"), e.concreteInt(a[3], "nd.SameEvents")
		if a1-a0 != b1-b0 {
			return tFalse
		}
		cs := []*Term{tTrue}
		for i := 0; i < a1-a0; i++ {
			x, y := e.env.events[a0+i], e.env.events[b0+i]
			if len(x.attrs) != len(y.attrs) {
				return tFalse
			}
			cs = append(cs, e.valEq(x.typ, y.typ))
			for j := range x.attrs {
				xa, ya := x.attrs[j].(*Opaque).data.([2]Value), y.attrs[j].(*Opaque).data.([2]Value)
				cs = append(cs, e.valEq(xa[0], ya[0]), e.valEq(xa[1], ya[1]))
			}
		}
		return e.tc.And(cs...)
	})
	reg(P+"Param", func(e *Exec, _ *ssa.Function, a []Value) Value {
		name := strArg(a[0], "nd.Param")
		if v, ok := e.h.params[name]; ok {
			return mkInt64(int64(v))
		}
		return a[1]
	})

	// term-level connectives
	reg(P+"And", func(e *Exec, _ *ssa.Function, a []Value) Value {
		var ts []*Term
		for _, v := range a[0].(Slice).data {
			ts = append(ts, v.(*Term))
		}
		return e.tc.And(ts...)
	})
	reg(P+"Or", func(e *Exec, _ *ssa.Function, a []Value) Value {
		var ts []*Term
		for _, v := range a[0].(Slice).data {
			ts = append(ts, v.(*Term))
		}
		return e.tc.Or(ts...)
	})
	reg(P+"Not", func(e *Exec, _ *ssa.Function, a []Value) Value { return e.tc.Not(a[0].(*Term)) })
	reg(P+"Implies", func(e *Exec, _ *ssa.Function, a []Value) Value {
		return e.tc.Implies(a[0].(*Term), a[1].(*Term))
	})
	reg(P+"Iff", func(e *Exec, _ *ssa.Function, a []Value) Value {
		return e.tc.Eq(a[0].(*Term), a[1].(*Term))
	})
	reg(P+"Ite", func(e *Exec, _ *ssa.Function, a []Value) Value {
		return e.iteValue(a[0].(*Term), a[1], a[2])
	})
	reg(P+"IteInt", func(e *Exec, _ *ssa.Function, a []Value) Value {
		return e.iteValue(a[0].(*Term), a[1], a[2])
	})
	reg(P+"IteDec", func(e *Exec, _ *ssa.Function, a []Value) Value {
		return e.iteValue(a[0].(*Term), a[1], a[2])
	})
	reg(P+"IteZ", func(e *Exec, _ *ssa.Function, a []Value) Value {
		return e.iteValue(a[0].(*Term), a[1], a[2])
	})
	reg(P+"IteBool", func(e *Exec, _ *ssa.Function, a []Value) Value {
		return e.iteValue(a[0].(*Term), a[1], a[2])
	})
	reg(P+"IteTime", func(e *Exec, _ *ssa.Function, a []Value) Value {
		return e.iteValue(a[0].(*Term), a[1], a[2])
	})
	reg(P+"IteU64", func(e *Exec, _ *ssa.Function, a []Value) Value {
		return e.iteValue(a[0].(*Term), a[1], a[2])
	})

	// ghost integers
	reg(P+"ZInt", func(e *Exec, _ *ssa.Function, a []Value) Value { return mkZ(e.big(a[0], "nd.ZInt").t) })
	reg(P+"ZDec", func(e *Exec, _ *ssa.Function, a []Value) Value { return mkZ(e.big(a[0], "nd.ZDec").t) })
	reg(P+"ZOf", func(e *Exec, _ *ssa.Function, a []Value) Value { return mkZ(a[0].(*Term)) })
	reg(P+"ZU64", func(e *Exec, _ *ssa.Function, a []Value) Value { return mkZ(a[0].(*Term)) })
	reg(P+"ZTime", func(e *Exec, _ *ssa.Function, a []Value) Value { return mkZ(a[0].(*TimeVal).ns) })
	reg(P+"ZStr", func(e *Exec, _ *ssa.Function, a []Value) Value {
		s := strArg(a[0], "nd.ZStr")
		v, ok := new(big.Int).SetString(s, 10)
		if !ok {
			panic(abortRun{kind: "error", msg: "nd.ZStr: bad literal " + s})
		}
		return mkZ(mkInt(v))
	})
	const Z = "(" + pkgND + ".Z)."
	zbin := func(name string, f func(e *Exec, x, y *Term) *Term) {
		reg(Z+name, func(e *Exec, _ *ssa.Function, a []Value) Value {
			return mkZ(f(e, a[0].(*BigVal).t, a[1].(*BigVal).t))
		})
	}
	zbin("Add", func(e *Exec, x, y *Term) *Term { return e.tc.Add(x, y) })
	zbin("Sub", func(e *Exec, x, y *Term) *Term { return e.tc.Sub(x, y) })
	zbin("Mul", func(e *Exec, x, y *Term) *Term { return e.tc.Mul(x, y) })
	zbin("Min", func(e *Exec, x, y *Term) *Term { return e.tc.Min(x, y) })
	zbin("Max", func(e *Exec, x, y *Term) *Term { return e.tc.Max(x, y) })
	// FloorDiv/CeilDiv: divisor must be positive (assumed by the harness)
	zbin("FloorDiv", func(e *Exec, x, y *Term) *Term {
		if !y.pos && !(y.IsConst() && y.val.Sign() > 0) {
			e.assume(e.tc.Lt(tZero, y))
		}
		return e.tc.mkFloorDiv(x, y)
	})
	zbin("CeilDiv", func(e *Exec, x, y *Term) *Term {
		if !y.pos && !(y.IsConst() && y.val.Sign() > 0) {
			e.assume(e.tc.Lt(tZero, y))
		}
		// ceil(x/y) = floor(x/y) + (x mod y > 0 ? 1 : 0), the same shape the library's Ceil takes
		q := e.tc.mkFloorDiv(x, y)
		var r *Term
		if y.pos || (y.IsConst() && y.val.Sign() > 0) {
			r = e.tc.modPos(x, y)
		} else {
			r = e.tc.mk("mod", SInt, x, y)
		}
		return e.tc.Ite(e.tc.Lt(tZero, r), e.tc.Add(q, tOne), q)
	})
	zcmp := func(name string, f func(e *Exec, x, y *Term) *Term) {
		reg(Z+name, func(e *Exec, _ *ssa.Function, a []Value) Value {
			return f(e, a[0].(*BigVal).t, a[1].(*BigVal).t)
		})
	}
	zcmp("EQ", func(e *Exec, x, y *Term) *Term { return e.tc.Eq(x, y) })
	zcmp("LT", func(e *Exec, x, y *Term) *Term { return e.tc.Lt(x, y) })
	zcmp("LE", func(e *Exec, x, y *Term) *Term { return e.tc.Le(x, y) })
	zcmp("GT", func(e *Exec, x, y *Term) *Term { return e.tc.Lt(y, x) })
	zcmp("GE", func(e *Exec, x, y *Term) *Term { return e.tc.Le(y, x) })
	reg(Z+"IsZero", func(e *Exec, _ *ssa.Function, a []Value) Value { return e.tc.Eq(a[0].(*BigVal).t, tZero) })
	reg(Z+"IsPos", func(e *Exec, _ *ssa.Function, a []Value) Value { return e.tc.Lt(tZero, a[0].(*BigVal).t) })
	reg(Z+"Int", func(e *Exec, _ *ssa.Function, a []Value) Value { return mkI(a[0].(*BigVal).t) })
	reg(Z+"Dec", func(e *Exec, _ *ssa.Function, a []Value) Value { return mkD(a[0].(*BigVal).t) })
}

// mkFloorDiv: floor division for a positive divisor without sign assumptions on x.
func (c *TermCtx) mkFloorDiv(x, y *Term) *Term {
	if x.IsConst() && y.IsConst() && y.val.Sign() > 0 {
		q := new(big.Int).Div(x.val, y.val) // Euclidean == floor for positive divisor
		return mkInt(q)
	}
	if y.pos || (y.IsConst() && y.val.Sign() > 0) {
		return c.floorDivPos(x, y)
	}
	t := c.mk("div", SInt, x, y)
	t.bits = x.bits
	t.nonneg = x.nonneg
	return t
}

func (e *Exec) iteValue(c *Term, a, b Value) Value {
	if c.IsConst() {
		if c.b {
			return a
		}
		return b
	}
	switch x := a.(type) {
	case *Term:
		return e.tc.Ite(c, x, b.(*Term))
	case *BigVal:
		y := b.(*BigVal)
		if x.isNil || y.isNil {
			panic(abortRun{kind: "error", msg: "nd.Ite over nil big value"})
		}
		return &BigVal{t: e.tc.Ite(c, x.t, y.t), kind: x.kind}
	case *TimeVal:
		return &TimeVal{ns: e.tc.Ite(c, x.ns, b.(*TimeVal).ns)}
	}
	panic(abortRun{kind: "unsupported", msg: "nd.Ite over " + describe(a)})
}

func applyHarnessOptions(h *HarnessRun) {}

func init() {
	reg(pkgND+".Option", func(e *Exec, _ *ssa.Function, a []Value) Value {
		switch o := strArg(a[0], "nd.Option"); o {
		case "permute-maps":
			e.permuteMaps = true
		case "permute-maps-single":
			e.permuteMaps = true
			e.permuteSingle = true
		case "overflow":
			e.overflowOn = true
		default:
			panic(abortRun{kind: "error", msg: "unknown nd.Option " + o})
		}
		return nil
	})
}
