package main

import "testing"

func TestBech32(t *testing.T) {
	for _, s := range []string{
		"cosmos1zqg3yyc5z5tpwxqergd3c8g7ruszzg3r3gv4w0",
		"cosmos1jv65s3grqf6v6jl3dp4t6c9t9rk99cd88lyufl",
		"cosmos14s9htpyzwkkglykpm3hwt7yqsvu2vl6yvwarm9zpcm68pkyaunlqfpvut2",
	} {
		bz, msg := accAddressFromBech32(s)
		if msg != "" {
			t.Fatalf("%s: %s", s, msg)
		}
		enc, err := bech32Encode("cosmos", bz)
		if err != nil || enc != s {
			t.Fatalf("roundtrip %s -> %s (%v)", s, enc, err)
		}
	}
	got, _ := bech32Encode("cosmos", addressModule("fundraising", []byte("SellingReserveAddress|0")))
	if got != "cosmos14s9htpyzwkkglykpm3hwt7yqsvu2vl6yvwarm9zpcm68pkyaunlqfpvut2" {
		t.Fatalf("module address: %s", got)
	}
	got, _ = bech32Encode("cosmos", addressModule("distribution"))
	if got != "cosmos1jv65s3grqf6v6jl3dp4t6c9t9rk99cd88lyufl" {
		t.Fatalf("module address: %s", got)
	}
}
