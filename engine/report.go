package main

import (
	"encoding/json"
	"fmt"
	"os"
	"os/exec"
	"path/filepath"
	"sort"
	"strconv"
	"strings"
	"sync/atomic"
	"time"
)

type RunConfig struct {
	HarnessDir    string
	Harnesses     []string
	Property      string
	Tier          string
	Workers       int
	Out           string
	Solver        string
	Trace         bool
	MaxPaths      int
	Groups        []string
	ReplayDir     string
	KnownFile     string
	NoNative      bool
	Params        map[string]int
	HarnessParams map[string]map[string]int
}

type KnownFinding struct {
	Property string `json:"property"`
	ID       string `json:"id"`
	Status   string `json:"status"` // "known" | "fixed"
	Commit   string `json:"commit,omitempty"`
	What     string `json:"what"`
}

func loadKnown(path string) []KnownFinding {
	b, err := os.ReadFile(path)
	if err != nil {
		return nil
	}
	var ks []KnownFinding
	if err := json.Unmarshal(b, &ks); err != nil {
		fmt.Fprintln(os.Stderr, "cannot parse known findings:", err)
		os.Exit(2)
	}
	return ks
}

type NativeResult struct {
	Asserts []struct {
		Label string `json:"label"`
		OK    bool   `json:"ok"`
	} `json:"asserts"`
	Observe       map[string]string `json:"observe"`
	AssumesFailed []string          `json:"assumes_failed"`
	Panic         string            `json:"panic"`
	Covers        []string          `json:"covers"`
	Distinct      int               `json:"distinct_traces"`
}

type nativeRunner struct {
	bin     string
	workDir string
	built   bool
	err     error
	secs    float64
}

func (n *nativeRunner) build(harnessDir string) error {
	if n.built {
		return n.err
	}
	n.built = true
	t0 := time.Now()
	n.workDir = filepath.Join("/verif/.work", strconv.Itoa(os.Getpid()))
	os.MkdirAll(n.workDir, 0o755)
	n.bin = filepath.Join(n.workDir, "replay")
	cmd := exec.Command("go", "build", "-o", n.bin, "./cmd/replay")
	cmd.Dir = harnessDir
	cmd.Env = append(os.Environ(), "GOFLAGS=-mod=mod", "GOPROXY=off", "GOSUMDB=off", "GOTOOLCHAIN=local")
	out, err := cmd.CombinedOutput()
	if err != nil {
		n.err = fmt.Errorf("native replay build failed: %v\n%s", err, out)
	}
	n.secs = time.Since(t0).Seconds()
	return n.err
}

func (n *nativeRunner) run(scenario string) (*NativeResult, error) {
	cmd := exec.Command(n.bin, "-scenario", scenario)
	cmd.Env = os.Environ()
	done := make(chan struct{})
	var out []byte
	var err error
	go func() { out, err = cmd.Output(); close(done) }()
	select {
	case <-done:
	case <-time.After(180 * time.Second):
		if cmd.Process != nil {
			cmd.Process.Kill()
		}
		<-done
		return nil, fmt.Errorf("native replay timed out")
	}
	if err != nil {
		if ee, ok := err.(*exec.ExitError); ok && len(out) == 0 {
			return nil, fmt.Errorf("native replay failed: %v: %s", err, ee.Stderr)
		}
	}
	// last line starting with RESULT
	var res NativeResult
	found := false
	for _, l := range strings.Split(string(out), "\n") {
		if strings.HasPrefix(l, "RESULT ") {
			if e := json.Unmarshal([]byte(l[7:]), &res); e != nil {
				return nil, e
			}
			found = true
		}
	}
	if !found {
		return nil, fmt.Errorf("native replay produced no RESULT line: %s", out)
	}
	return &res, nil
}

func (n *nativeRunner) cleanup() {
	if n.workDir != "" {
		os.RemoveAll(n.workDir)
	}
}

func writeScenario(dir string, sc *Scenario, k int) string {
	os.MkdirAll(dir, 0o755)
	safe := strings.NewReplacer("/", "_", " ", "_", ":", "_", "@", "_", "(", "", ")", "").Replace(sc.Label)
	if len(safe) > 60 {
		safe = safe[:60]
	}
	p := filepath.Join(dir, fmt.Sprintf("%s__%s__%s_%d.json", sc.Harness, safe, sc.Kind, k))
	b, _ := json.MarshalIndent(sc, "", " ")
	os.WriteFile(p, b, 0o644)
	return p
}

func repoRev() string {
	out, err := exec.Command("git", "-C", "/repo", "rev-parse", "--short", "HEAD").Output()
	rev := strings.TrimSpace(string(out))
	if err != nil {
		rev = "unknown"
	}
	st, _ := exec.Command("git", "-C", "/repo", "status", "--porcelain").Output()
	if len(strings.TrimSpace(string(st))) > 0 {
		rev += "+dirty"
	}
	return rev
}

func runCheck(cfg *RunConfig) int {
	t0 := time.Now()
	seed := 0
	if s := os.Getenv("VERIF_SEED"); s != "" {
		seed, _ = strconv.Atoi(s)
	}
	prog, err := loadProgram(cfg.HarnessDir, "./props")
	if err != nil {
		fmt.Fprintln(os.Stderr, "LOAD-FAILED:", err)
		return 2
	}
	prog.solverName = cfg.Solver
	prog.trace = cfg.Trace
	fmt.Printf("loaded SSA in %.1fs\n", prog.loadSecs)
	known := loadKnown(cfg.KnownFile)
	knownActive := map[string]bool{}
	knownWhat := map[string]string{}
	for _, k := range known {
		if k.Status == "known" {
			knownActive[k.ID] = true
		}
		knownWhat[k.ID] = k.What
	}
	rev := repoRev()
	native := &nativeRunner{}
	defer native.cleanup()

	exit := 0
	var runs []*HarnessRun
	totalViol := 0
	validated := 0
	encodingMismatch := 0
	var violationLines []string
	var knownLines []string
	for _, hn := range cfg.Harnesses {
		if totalViol > 0 {
			fmt.Printf("harness %s: skipped (a violation is already confirmed; the check fails)\n", hn)
			continue
		}
		fnName := hn
		if i := strings.Index(fnName, "#"); i > 0 {
			fnName = fnName[:i] // "Harness#variant" runs the same harness with its own parameter overrides
		}
		fn := prog.props.Func(fnName)
		if fn == nil {
			fmt.Fprintf(os.Stderr, "harness %s not found in verif/harness/props\n", hn)
			return 2
		}
		h := &HarnessRun{prog: prog, name: hn, property: cfg.Property, fn: fn, tier: cfg.Tier,
			feasTimeoutMs: 3000, assertTimeoutMs: 15000, maxSteps: 3000000, maxPaths: cfg.MaxPaths,
			fixedPicks: map[string]int{}, knownActive: knownActive, params: mergeParams(cfg.Params, cfg.HarnessParams[hn]),
			aborted: map[string]int{}, abortMsgs: map[string]int{}, labels: map[string]*labelStat{},
			covers: map[string]*Scenario{}, coverHits: map[string]int{}, knownHits: map[string]*Scenario{},
			entered: map[string]int{}, intrinsics: map[string]int{}, mapRanges: map[string]int{}, shapes: map[string]int{},
			fuzzBudget: 30000, seed: seed, failFastAfter: 8, crossEvery: 100}
		if cfg.Tier == "thorough" {
			h.assertTimeoutMs = 120000
			h.feasTimeoutMs = 5000
			h.crossEvery = 100
		}
		if len(cfg.Groups) > 0 {
			h.groups = map[string]bool{}
			for _, g := range cfg.Groups {
				h.groups[g] = true
			}
			h.groups["no-panic"] = true
		}
		applyHarnessOptions(h)
		h.runAll(cfg.Workers)
		runs = append(runs, h)
		wall := time.Since(h.start).Seconds()
		obl, dis, vio, inc := 0, 0, 0, 0
		for _, ls := range h.labels {
			obl += ls.checked
			dis += ls.discharged
			vio += ls.violated
			inc += ls.inconclusive
		}
		fmt.Printf("harness %s: paths=%d completed=%d infeasible=%d panicked=%d branches=%d obligations=%d discharged=%d violated=%d inconclusive=%d feas-unknown=%d model-hits=%d search-hits=%d covers=%d wall=%.1fs\n",
			hn, h.paths, h.completed, h.infeasible, h.panicked, h.branchTotal, obl, dis, vio, inc, h.feasUnknown, h.modelHits, h.searchHits, len(h.covers), wall)
		for k, n := range h.aborted {
			fmt.Printf("  ABORTED kind=%s paths=%d\n", k, n)
			if k == "unsupported" || k == "error" || k == "unwind" {
				exit = 2
			}
		}
		for m, n := range h.abortMsgs {
			fmt.Printf("    %dx %s\n", n, m)
		}
		if h.disagreements > 0 {
			fmt.Printf("  SOLVER-DISAGREEMENT: %d of %d cross-checked obligations\n", h.disagreements, h.crossChecked)
			exit = 2
		}
		if h.failFast {
			fmt.Printf("  FAIL-FAST: exploration stopped after %d counterexamples\n", h.violCount)
		}
		if h.pathLimitHit {
			fmt.Printf("  PATH-LIMIT hit (%d): exploration incomplete\n", h.maxPaths)
		}
		for _, l := range sortedKeys(h.labels) {
			ls := h.labels[l]
			if ls.violated > 0 || ls.inconclusive > 0 {
				fmt.Printf("  label %-40s checked=%d discharged=%d violated=%d inconclusive=%d\n", l, ls.checked, ls.discharged, ls.violated, ls.inconclusive)
			}
		}
		if inc > 0 {
			fmt.Printf("  INCONCLUSIVE %d obligations (solver unknown/timeouts)\n", inc)
			// a handful of undecided queries is timing noise and is reported in the evidence; many of them
			// mean the property could not be decided on this tree, which is not success
			tol := obl / 200
			if tol < 3 {
				tol = 3
			}
			if inc > tol {
				fmt.Printf("  UNDECIDED: %d of %d obligations of %s could not be decided (tolerance %d): exit 2\n", inc, obl, hn, tol)
				if exit == 0 {
					exit = 2
				}
			}
		}
		// vacuity: every harness must reach at least one cover
		if len(h.covers) == 0 {
			fmt.Printf("  VACUOUS: harness %s reached no Cover point\n", hn)
			exit = 2
		}
		// known findings
		for id, sc := range h.knownHits {
			sc.RepoRev = rev
			p := writeScenario(filepath.Join(cfg.ReplayDir, cfg.Property), sc, 0)
			knownLines = append(knownLines, fmt.Sprintf("KNOWN-FINDING: property=%s %s [%s] (%s, replay=%s)", cfg.Property, knownWhat[id], id, sc.Label, p))
		}
		// violations: replay natively before reporting
		perLabel := map[string]int{}
		for _, sc := range h.violations {
			if perLabel[sc.Label] >= 2 {
				continue
			}
			perLabel[sc.Label]++
			sc.RepoRev = rev
			p := writeScenario(filepath.Join(cfg.ReplayDir, cfg.Property), sc, perLabel[sc.Label])
			if cfg.NoNative {
				fmt.Printf("  CANDIDATE (not replayed) label=%s where=%s replay=%s\n", sc.Label, sc.Where, p)
				totalViol++
				violationLines = append(violationLines, fmt.Sprintf("VIOLATION property=%s replay=%s", cfg.Property, p))
				continue
			}
			if err := native.build(cfg.HarnessDir); err != nil {
				fmt.Fprintln(os.Stderr, err)
				return 2
			}
			res, err := native.run(p)
			if err != nil {
				fmt.Printf("  REPLAY-ERROR %s: %v\n", p, err)
				encodingMismatch++
				continue
			}
			confirmed := false
			if sc.Label == "no-panic" {
				confirmed = res.Panic != ""
			} else {
				for _, a := range res.Asserts {
					if a.Label == sc.Label && !a.OK {
						confirmed = true
					}
				}
			}
			if len(res.AssumesFailed) > 0 {
				fmt.Printf("  REPLAY assumption(s) failed natively: %v\n", res.AssumesFailed)
			}
			if confirmed {
				totalViol++
				fmt.Printf("  CONFIRMED natively: label=%s %s\n", sc.Label, sc.Where)
				violationLines = append(violationLines, fmt.Sprintf("VIOLATION property=%s replay=%s", cfg.Property, p))
			} else {
				encodingMismatch++
				fmt.Printf("  ENCODING-MISMATCH: solver counterexample for %s did not reproduce natively (replay=%s, native panic=%q)\n", sc.Label, p, res.Panic)
			}
		}
		// witness replay (translation validation of engine + models)
		if !cfg.NoNative {
			nw := 0
			for _, l := range sortedKeys(h.covers) {
				if nw >= 2 {
					break
				}
				sc := h.covers[l]
				sc.RepoRev = rev
				p := writeScenario(filepath.Join(cfg.ReplayDir, cfg.Property), sc, 0)
				if err := native.build(cfg.HarnessDir); err != nil {
					fmt.Fprintln(os.Stderr, err)
					return 2
				}
				res, err := native.run(p)
				if err != nil {
					fmt.Printf("  WITNESS-REPLAY-ERROR %s: %v\n", p, err)
					encodingMismatch++
					continue
				}
				nw++
				ok := true
				covered := false
				for _, c := range res.Covers {
					if c == l {
						covered = true
					}
				}
				if !covered {
					ok = false
					fmt.Printf("  WITNESS native run did not reach cover %s (assumes failed: %v, panic=%q)\n", l, res.AssumesFailed, res.Panic)
				}
				for name, want := range sc.Observe {
					got, have := res.Observe[name]
					if !have || normVal(got) != normVal(want) {
						ok = false
						fmt.Printf("  WITNESS observe mismatch %s: engine=%s native=%s\n", name, want, got)
					}
				}
				for _, a := range res.Asserts {
					if !a.OK {
						// a witness satisfies every assertion checked so far on its path unless it is a listed finding
						fmt.Printf("  WITNESS native assertion failed: %s\n", a.Label)
					}
				}
				if ok {
					validated++
				} else {
					encodingMismatch++
					fmt.Printf("  ENCODING-MISMATCH on witness %s (replay=%s)\n", l, p)
				}
			}
		}
	}
	// C14: every statically found source of nondeterminism must have been exercised in permute mode
	if cfg.Property == "C14" {
		covered := map[string]int{}
		for _, h := range runs {
			for site, n := range h.mapRanges {
				if n > covered[site] {
					covered[site] = n
				}
			}
		}
		for _, s := range prog.scanNondet() {
			switch {
			case s.Kind == "map-range":
				ok := false
				for site, n := range covered {
					if strings.Contains(site, s.Pos) && n >= 2 {
						ok = true
					}
				}
				if ok {
					fmt.Printf("  nondeterminism source covered: %s %s\n", s.Kind, s.Pos)
				} else {
					fmt.Printf("  UNCOVERED nondeterminism source: %s %s in %s (no harness iterated it with >= 2 entries in permute mode)\n", s.Kind, s.Pos, s.Func)
					if exit == 0 {
						exit = 2
					}
				}
			case strings.Contains(s.Kind, "maps.Keys"):
				ok := false
				for site, n := range covered {
					if strings.Contains(site, "maps.Keys") && n >= 2 {
						ok = true
					}
				}
				if ok {
					fmt.Printf("  nondeterminism source covered: %s %s (keys of a map, iterated in permute mode)\n", "maps.Keys", s.Pos)
				} else {
					fmt.Printf("  UNCOVERED nondeterminism source: %s %s in %s\n", s.Kind, s.Pos, s.Func)
					if exit == 0 {
						exit = 2
					}
				}
			case s.Kind == "call:time.Now" && strings.HasSuffix(s.Func, ".BeginBlocker"):
				fmt.Printf("  nondeterminism source exempt: %s %s (telemetry timing only; the value is passed to telemetry.ModuleMeasureSince and flows nowhere else)\n", s.Kind, s.Pos)
			case s.Kind == "go" && strings.Contains(s.Pos, ".pb.gw.go"):
				fmt.Printf("  nondeterminism source exempt: %s %s (generated gRPC gateway client plumbing, not state machine code)\n", s.Kind, s.Pos)
			default:
				fmt.Printf("  UNCOVERED nondeterminism source: %s %s in %s\n", s.Kind, s.Pos, s.Func)
				if exit == 0 {
					exit = 2
				}
			}
		}
	}
	if cfg.Property == "C02" {
		for _, s := range prog.scanBankCalls() {
			fmt.Printf("  COIN-CREATING/DESTROYING CALL in module code: %s %s in %s\n", s.Kind, s.Pos, s.Func)
			if exit == 0 {
				exit = 2
			}
		}
	}
	if encodingMismatch > 0 && exit == 0 {
		exit = 2
	}
	for _, l := range knownLines {
		fmt.Println(l)
	}
	for _, l := range violationLines {
		fmt.Println(l)
	}
	if totalViol > 0 {
		exit = 1
	}
	if cfg.Out != "" {
		writeEvidence(cfg, runs, seed, time.Since(t0).Seconds(), totalViol, validated, native.secs, prog)
	}
	fmt.Printf("solver: queries=%d sat=%d unsat=%d unknown=%d errors=%d time=%.1fs; total wall=%.1fs; exit=%d\n",
		atomic.LoadInt64(&gStats.queries), gStats.sat, gStats.unsat, gStats.unknown, gStats.errors, float64(gStats.nanos)/1e9, time.Since(t0).Seconds(), exit)
	return exit
}

func mergeParams(base, over map[string]int) map[string]int {
	out := map[string]int{}
	for k, v := range base {
		out[k] = v
	}
	for k, v := range over {
		out[k] = v
	}
	return out
}

func normVal(s string) string {
	s = strings.TrimSpace(s)
	s = strings.ReplaceAll(s, " ", "")
	if strings.HasPrefix(s, "(-") && strings.HasSuffix(s, ")") {
		s = "-" + s[2:len(s)-1]
	}
	return s
}

func writeEvidence(cfg *RunConfig, runs []*HarnessRun, seed int, wall float64, violations, validated int, nativeBuildSecs float64, prog *Program) {
	states, transitions, obl, dis, inc := 0, 0, 0, 0, 0
	var samples []interface{}
	funcs := map[string]bool{}
	intr := map[string]int{}
	assumptions := map[string]bool{}
	shapes := 0
	var harnessSummaries []map[string]interface{}
	mapRanges := map[string]int{}
	for _, h := range runs {
		states += h.completed + h.panicked
		transitions += h.branchTotal
		lab := map[string]interface{}{}
		for l, ls := range h.labels {
			obl += ls.checked
			dis += ls.discharged
			inc += ls.inconclusive
			lab[l] = map[string]int{"checked": ls.checked, "discharged": ls.discharged, "violated": ls.violated, "inconclusive": ls.inconclusive, "trivially_true": ls.trivial}
		}
		for k := range h.entered {
			if strings.Contains(k, modulePath) {
				funcs[k] = true
			}
		}
		for k, n := range h.intrinsics {
			intr[k] += n
		}
		for a := range h.assumptions {
			assumptions[a] = true
		}
		for k, n := range h.mapRanges {
			if n > mapRanges[k] {
				mapRanges[k] = n
			}
		}
		shapes += len(h.shapes)
		for _, l := range sortedKeys(h.covers) {
			if len(samples) < 6 {
				sc := h.covers[l]
				samples = append(samples, map[string]interface{}{"harness": h.name, "witness_for": l, "picks": sc.Picks, "values": sc.Values})
			}
		}
		harnessSummaries = append(harnessSummaries, map[string]interface{}{
			"harness": h.name, "bounds": h.params, "paths": h.paths, "completed": h.completed, "infeasible": h.infeasible, "panicked_paths": h.panicked,
			"aborted": h.aborted, "labels": lab, "covers_reached": h.coverHits, "shapes": len(h.shapes), "path_limit_hit": h.pathLimitHit,
			"feasibility_unknown":            h.feasUnknown,
			"cross_checked_by_second_solver": h.crossChecked, "solver_disagreements": h.disagreements,
		})
	}
	if states == 0 {
		states = 1
	}
	if transitions == 0 {
		transitions = 1
	}
	if len(samples) == 0 {
		samples = append(samples, "no witness produced")
	}
	var fl []string
	for k := range funcs {
		fl = append(fl, k)
	}
	sort.Strings(fl)
	var al []string
	for a := range assumptions {
		al = append(al, assumptionText(a))
	}
	al = append(al, baseAssumptions...)
	sort.Strings(al)
	ev := map[string]interface{}{
		"property_id": cfg.Property,
		"tier":        cfg.Tier,
		"seed":        seed,
		"level":       "model_checking",
		"coverage": map[string]interface{}{
			"states":                        states,
			"transitions":                   transitions,
			"traces_validated_against_impl": validated,
			"samples":                       samples,
			"obligations":                   obl,
			"discharged":                    dis,
			"inconclusive":                  inc,
			"functions_encoded":             fl,
			"intrinsics_used":               intr,
			"harnesses":                     harnessSummaries,
			"shapes_explored":               shapes,
			"map_range_sites":               mapRanges,
			"solver": map[string]interface{}{
				"primary": cfg.Solver, "queries": gStats.queries, "sat": gStats.sat, "unsat": gStats.unsat,
				"unknown": gStats.unknown, "errors": gStats.errors, "solver_time_s": float64(gStats.nanos) / 1e9,
			},
			"ssa_load_s":     prog.loadSecs,
			"native_build_s": nativeBuildSecs,
			"repo_rev":       repoRev(),
			"explanation":    "bounded symbolic execution of the module's go/ssa code; states = completed symbolic paths, transitions = symbolic branch decisions; every obligation is an SMT query pc ∧ ¬assertion",
		},
		"assumptions": al,
		"wall_s":      wall,
		"violations":  violations,
	}
	b, _ := json.MarshalIndent(ev, "", " ")
	os.MkdirAll(filepath.Dir(cfg.Out), 0o755)
	os.WriteFile(cfg.Out, b, 0o644)
}

var baseAssumptions = []string{
	"SMT semantics of cosmossdk.io/math intrinsics (DESIGN §2.3b), conformance-checked by harness H_Conformance",
	"collections/bank/distribution/context models (DESIGN §2.3d); witness scenarios are replayed against the real keepers",
	"protobuf/Any codec round trip is the identity on valid values",
	"no vesting accounts or send restrictions on the accounts involved; derived escrow addresses do not collide",
	"go/ssa's translation of the source is faithful",
}

func assumptionText(a string) string {
	switch a {
	case "no-overflow":
		return "amounts bounded so that the library's 256/315-bit overflow panics are unreachable (overflow guards not explored in this run)"
	}
	return a
}
