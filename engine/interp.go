package main

import (
	"fmt"
	"go/constant"
	"go/token"
	"go/types"
	"math/big"
	"os"
	"strings"

	"golang.org/x/tools/go/ssa"
)

// abortRun terminates the current symbolic path.
type abortRun struct {
	kind string // "infeasible", "unsupported", "unwind", "error", "inconclusive", "done"
	msg  string
}

// goPanic is a Go-level panic raised by the interpreted program.
type goPanic struct {
	val   Value
	where string
}

type deferred struct {
	fn   Value
	args []Value
}

type frame struct {
	fn        *ssa.Function
	env       map[ssa.Value]Value
	block     *ssa.BasicBlock
	prev      *ssa.BasicBlock
	defers    []deferred
	result    Value
	visits    map[*ssa.BasicBlock]int
	panicking bool
	panicVal  *goPanic
	caller    *frame
}

func (fr *frame) get(e *Exec, v ssa.Value) Value {
	switch v := v.(type) {
	case nil:
		return nil
	case *ssa.Const:
		return e.constValue(v)
	case *ssa.Global:
		return e.globalAddr(v)
	case *ssa.Function:
		return v
	case *ssa.Builtin:
		return v
	}
	if r, ok := fr.env[v]; ok {
		return r
	}
	panic(abortRun{kind: "error", msg: fmt.Sprintf("get: no value for %T %s in %s", v, v.Name(), fr.fn)})
}

func (e *Exec) constValue(c *ssa.Const) Value {
	t := c.Type()
	if c.Value == nil {
		return zeroValue(t)
	}
	if tp, ok := t.Underlying().(*types.Basic); ok {
		switch {
		case tp.Info()&types.IsBoolean != 0:
			return mkBool(constant.BoolVal(c.Value))
		case tp.Info()&types.IsInteger != 0:
			v := constant.ToInt(c.Value)
			bi, ok := new(big.Int).SetString(v.ExactString(), 10)
			if !ok {
				panic(abortRun{kind: "error", msg: "bad int const " + v.ExactString()})
			}
			return mkInt(bi)
		case tp.Info()&types.IsString != 0:
			if c.Value.Kind() == constant.String {
				return constant.StringVal(c.Value)
			}
			// conversion from int constant
			return string(rune(c.Int64()))
		case tp.Info()&types.IsFloat != 0:
			f, _ := constant.Float64Val(c.Value)
			return &Opaque{name: "float", data: f}
		}
	}
	panic(abortRun{kind: "unsupported", msg: "constant of type " + t.String()})
}

func (e *Exec) globalAddr(g *ssa.Global) Ptr {
	if p, ok := e.globals[g]; ok {
		return p
	}
	// harness packages: run the package initialiser (variable initialisers and
	// init functions) once per path, skipping other packages' initialisers
	if g.Pkg != nil && (strings.HasPrefix(g.Pkg.Pkg.Path(), "verif/harness") || e.prog.inModule(g.Pkg.Pkg.Path())) && !e.pkgInited[g.Pkg] {
		if e.pkgInited == nil {
			e.pkgInited = map[*ssa.Package]bool{}
		}
		e.pkgInited[g.Pkg] = true
		if initFn := g.Pkg.Func("init"); initFn != nil && initFn.Blocks != nil {
			e.runPackageInit(g.Pkg, initFn)
		}
		if p, ok := e.globals[g]; ok {
			return p
		}
	}
	p := new(Value)
	*p = e.initialGlobal(g)
	e.globals[g] = p
	return p
}

// runPackageInit executes a package's synthetic init (variable initialisers and
// init functions). Other packages' initialisers are skipped, and calls into
// dependencies that the engine does not model (protobuf registration and the
// like) yield zero values instead of aborting: "lenient" mode, used only here.
func (e *Exec) runPackageInit(pkg *ssa.Package, initFn *ssa.Function) {
	e.initMode++
	saveSteps := e.steps
	defer func() {
		e.initMode--
		e.steps = saveSteps
		if r := recover(); r != nil {
			switch x := r.(type) {
			case *goPanic:
				panic(abortRun{kind: "error", msg: fmt.Sprintf("package %s initialiser panicked: %s at %s", pkg.Pkg.Path(), describe(x.val), x.where)})
			default:
				panic(r)
			}
		}
	}()
	e.callSSA(initFn, nil, nil, nil)
}

func isErrorType(t types.Type) bool {
	if n, ok := t.(*types.Named); ok && n.Obj().Pkg() == nil && n.Obj().Name() == "error" {
		return true
	}
	return false
}

func (e *Exec) initialGlobal(g *ssa.Global) Value {
	t := g.Type().(*types.Pointer).Elem()
	name := g.Pkg.Pkg.Path() + "." + g.Name()
	if v, ok := e.globalOverride[name]; ok {
		return v
	}
	if isErrorType(t) {
		return Iface{t: errValType, v: &ErrVal{root: name}}
	}
	if np := namedPath(t); np == "cosmossdk.io/errors.Error" {
		return Iface{t: errValType, v: &ErrVal{root: name}}
	}
	if pt, ok := t.(*types.Pointer); ok && namedPath(pt.Elem()) == "cosmossdk.io/errors.Error" {
		// *errors.Error sentinels (types.ErrX = sdkerrors.Register(...))
		return &ErrVal{root: name}
	}
	if f := globalInits[name]; f != nil {
		return f(e)
	}
	if e.prog.inModule(g.Pkg.Pkg.Path()) || strings.HasPrefix(g.Pkg.Pkg.Path(), "verif/harness") {
		return zeroValue(t)
	}
	return &Opaque{name: "global:" + name}
}

// ---------- running functions ----------

const maxBlockVisits = 300

func (e *Exec) callSSA(fn *ssa.Function, args []Value, env []Value, caller *frame) (result Value) {
	if fn.Blocks == nil {
		panic(abortRun{kind: "unsupported", msg: "call to function without body: " + fn.String()})
	}
	e.depth++
	if e.depth > 400 {
		panic(abortRun{kind: "unwind", msg: "call depth > 400 in " + fn.String()})
	}
	defer func() { e.depth-- }()
	e.noteEntered(fn)
	fr := &frame{fn: fn, env: make(map[ssa.Value]Value, 16), caller: caller}
	for i, p := range fn.Params {
		fr.env[p] = args[i]
	}
	for i, fv := range fn.FreeVars {
		fr.env[fv] = env[i]
	}
	for _, l := range fn.Locals {
		fr.env[l] = new(Value)
	}
	fr.block = fn.Blocks[0]

	// Go panics from callees unwind through here: run our defers.
	defer func() {
		if fr.block == nil {
			return
		}
		r := recover()
		if r == nil {
			return
		}
		gp, ok := r.(*goPanic)
		if !ok {
			panic(r)
		}
		fr.panicking = true
		fr.panicVal = gp
		e.runDefers(fr)
		// recovered: return named results via recover block
		if fn.Recover != nil {
			fr.block = fn.Recover
			fr.prev = nil
			e.runBlocks(fr)
			result = fr.result
			return
		}
		result = zeroValueTuple(fn.Signature.Results())
	}()
	e.runBlocks(fr)
	return fr.result
}

func zeroValueTuple(t *types.Tuple) Value {
	switch t.Len() {
	case 0:
		return nil
	case 1:
		return zeroValue(t.At(0).Type())
	}
	tp := make(Tuple, t.Len())
	for i := range tp {
		tp[i] = zeroValue(t.At(i).Type())
	}
	return tp
}

func (e *Exec) runDefers(fr *frame) {
	for len(fr.defers) > 0 {
		d := fr.defers[len(fr.defers)-1]
		fr.defers = fr.defers[:len(fr.defers)-1]
		func() {
			defer func() {
				if r := recover(); r != nil {
					gp, ok := r.(*goPanic)
					if !ok {
						panic(r)
					}
					fr.panicking = true
					fr.panicVal = gp
				}
			}()
			e.recoverFrame = append(e.recoverFrame, fr)
			defer func() { e.recoverFrame = e.recoverFrame[:len(e.recoverFrame)-1] }()
			e.call(d.fn, d.args, fr)
		}()
	}
	if fr.panicking {
		panic(fr.panicVal)
	}
}

func (e *Exec) runBlocks(fr *frame) {
	for fr.block != nil {
		b := fr.block
		if fr.visits == nil {
			fr.visits = map[*ssa.BasicBlock]int{}
		}
		fr.visits[b]++
		limit := maxBlockVisits
		if fr.fn.Pkg != nil && strings.HasPrefix(fr.fn.Pkg.Pkg.Path(), "verif/harness/props") {
			limit = 200000 // harness loops are concrete tables
		}
		if fr.visits[b] > limit {
			panic(abortRun{kind: "unwind", msg: fmt.Sprintf("block %d of %s visited more than %d times", b.Index, fr.fn, maxBlockVisits)})
		}
		// phis
		i := 0
		if fr.prev != nil {
			var idx = -1
			for k, p := range b.Preds {
				if p == fr.prev {
					idx = k
					break
				}
			}
			var phiVals []Value
			for ; i < len(b.Instrs); i++ {
				phi, ok := b.Instrs[i].(*ssa.Phi)
				if !ok {
					break
				}
				phiVals = append(phiVals, fr.get(e, phi.Edges[idx]))
			}
			for k := 0; k < i; k++ {
				fr.env[b.Instrs[k].(*ssa.Phi)] = phiVals[k]
			}
		}
		jumped := false
		for ; i < len(b.Instrs); i++ {
			e.steps++
			if e.steps > e.maxSteps {
				panic(abortRun{kind: "unwind", msg: fmt.Sprintf("more than %d instructions on one path", e.maxSteps)})
			}
			if e.visit(fr, b.Instrs[i]) {
				jumped = true
				break
			}
		}
		if !jumped {
			panic(abortRun{kind: "error", msg: "fell off block in " + fr.fn.String()})
		}
	}
}

func (e *Exec) pos(fr *frame, instr ssa.Instruction) string {
	p := instr.Pos()
	if p == token.NoPos {
		return fr.fn.String()
	}
	ps := e.prog.fset.Position(p)
	return fmt.Sprintf("%s (%s:%d)", fr.fn.String(), shortFile(ps.Filename), ps.Line)
}

func shortFile(f string) string {
	if i := strings.Index(f, "/pkg/mod/"); i >= 0 {
		return f[i+9:]
	}
	return f
}

func (e *Exec) goPanicf(fr *frame, instr ssa.Instruction, format string, a ...interface{}) {
	where := ""
	if fr != nil && instr != nil {
		where = e.pos(fr, instr)
	}
	panic(&goPanic{val: fmt.Sprintf(format, a...), where: where})
}

// visit executes one instruction; returns true when control transferred.
func (e *Exec) visit(fr *frame, instr ssa.Instruction) bool {
	if e.trace {
		fmt.Fprintf(os.Stderr, "  [%s] %s\n", fr.fn.Name(), instr)
	}
	switch in := instr.(type) {
	case *ssa.DebugRef:
	case *ssa.UnOp:
		fr.env[in] = e.unop(fr, in, fr.get(e, in.X))
	case *ssa.BinOp:
		fr.env[in] = e.binop(fr, in, in.Op, in.X.Type(), fr.get(e, in.X), fr.get(e, in.Y))
	case *ssa.Call:
		fn, args := e.prepareCall(fr, in, &in.Call)
		fr.env[in] = e.callAt(fn, args, fr, in)
	case *ssa.ChangeInterface:
		fr.env[in] = fr.get(e, in.X)
	case *ssa.ChangeType:
		fr.env[in] = fr.get(e, in.X)
	case *ssa.Convert:
		fr.env[in] = e.conv(fr, in, in.Type(), in.X.Type(), fr.get(e, in.X))
	case *ssa.MakeInterface:
		fr.env[in] = makeIface(in.X.Type(), copyVal(fr.get(e, in.X)))
	case *ssa.Extract:
		fr.env[in] = fr.get(e, in.Tuple).(Tuple)[in.Index]
	case *ssa.Slice:
		fr.env[in] = e.sliceOp(fr, in)
	case *ssa.Return:
		switch len(in.Results) {
		case 0:
		case 1:
			fr.result = copyVal(fr.get(e, in.Results[0]))
		default:
			res := make(Tuple, len(in.Results))
			for i, r := range in.Results {
				res[i] = copyVal(fr.get(e, r))
			}
			fr.result = res
		}
		fr.block = nil
		return true
	case *ssa.RunDefers:
		e.runDefers(fr)
	case *ssa.Panic:
		v := fr.get(e, in.X)
		panic(&goPanic{val: v, where: e.pos(fr, in)})
	case *ssa.Store:
		addr, _ := fr.get(e, in.Addr).(Ptr)
		if addr == nil {
			e.goPanicf(fr, in, "nil pointer dereference (store)")
		}
		storeInto(addr, fr.get(e, in.Val))
	case *ssa.If:
		c := fr.get(e, in.Cond).(*Term)
		succ := 1
		if e.branch(c) {
			succ = 0
		}
		fr.prev, fr.block = fr.block, fr.block.Succs[succ]
		return true
	case *ssa.Jump:
		fr.prev, fr.block = fr.block, fr.block.Succs[0]
		return true
	case *ssa.Defer:
		fn, args := e.prepareCall(fr, in, &in.Call)
		fr.defers = append(fr.defers, deferred{fn: fn, args: args})
	case *ssa.Alloc:
		var addr Ptr
		if in.Heap {
			addr = new(Value)
			fr.env[in] = addr
		} else {
			addr = fr.env[in].(Ptr)
		}
		*addr = zeroValue(in.Type().Underlying().(*types.Pointer).Elem())
	case *ssa.MakeSlice:
		n := e.concreteInt(fr.get(e, in.Len), "make len")
		c := e.concreteInt(fr.get(e, in.Cap), "make cap")
		if c > 100000 {
			panic(abortRun{kind: "unsupported", msg: "huge make"})
		}
		data := make([]Value, c)
		et := in.Type().Underlying().(*types.Slice).Elem()
		for i := range data {
			data[i] = zeroValue(et)
		}
		fr.env[in] = Slice{data: data[:n]}
	case *ssa.MakeMap:
		mt := in.Type().Underlying().(*types.Map)
		e.mapSeq++
		fr.env[in] = &MapVal{kt: mt.Key(), vt: mt.Elem(), id: e.mapSeq}
	case *ssa.Range:
		fr.env[in] = e.rangeIter(fr, in, fr.get(e, in.X))
	case *ssa.Next:
		fr.env[in] = fr.get(e, in.Iter).(iterator).next(e)
	case *ssa.FieldAddr:
		p, _ := fr.get(e, in.X).(Ptr)
		if p == nil {
			e.goPanicf(fr, in, "nil pointer dereference (field %d)", in.Field)
		}
		s, ok := (*p).(Struct)
		if !ok {
			panic(abortRun{kind: "unsupported", msg: fmt.Sprintf("FieldAddr on %s at %s", describe(*p), e.pos(fr, in))})
		}
		fr.env[in] = &s[in.Field]
	case *ssa.Field:
		s, ok := fr.get(e, in.X).(Struct)
		if !ok {
			panic(abortRun{kind: "unsupported", msg: fmt.Sprintf("Field on %s at %s", describe(fr.get(e, in.X)), e.pos(fr, in))})
		}
		fr.env[in] = s[in.Field]
	case *ssa.IndexAddr:
		x := fr.get(e, in.X)
		idx := e.concreteInt(fr.get(e, in.Index), "index")
		switch x := x.(type) {
		case Slice:
			if idx < 0 || idx >= len(x.data) {
				e.goPanicf(fr, in, "index out of range [%d] with length %d", idx, len(x.data))
			}
			fr.env[in] = &x.data[idx]
		case Ptr:
			if x == nil {
				e.goPanicf(fr, in, "nil pointer dereference (index)")
			}
			a := (*x).(Array)
			if idx < 0 || idx >= len(a) {
				e.goPanicf(fr, in, "index out of range [%d] with length %d", idx, len(a))
			}
			fr.env[in] = &a[idx]
		default:
			panic(abortRun{kind: "unsupported", msg: fmt.Sprintf("IndexAddr on %T", x)})
		}
	case *ssa.Index:
		x := fr.get(e, in.X)
		idx := e.concreteInt(fr.get(e, in.Index), "index")
		switch x := x.(type) {
		case Array:
			if idx < 0 || idx >= len(x) {
				e.goPanicf(fr, in, "index out of range [%d] with length %d", idx, len(x))
			}
			fr.env[in] = x[idx]
		case string:
			if idx < 0 || idx >= len(x) {
				e.goPanicf(fr, in, "index out of range [%d] with length %d", idx, len(x))
			}
			fr.env[in] = mkInt64(int64(x[idx]))
		default:
			panic(abortRun{kind: "unsupported", msg: fmt.Sprintf("Index on %T at %s", x, e.pos(fr, in))})
		}
	case *ssa.Lookup:
		fr.env[in] = e.lookup(fr, in)
	case *ssa.MapUpdate:
		m, _ := fr.get(e, in.Map).(*MapVal)
		if m == nil {
			e.goPanicf(fr, in, "assignment to entry in nil map")
		}
		e.mapSet(m, fr.get(e, in.Key), copyVal(fr.get(e, in.Value)))
	case *ssa.TypeAssert:
		fr.env[in] = e.typeAssert(fr, in, fr.get(e, in.X))
	case *ssa.MakeClosure:
		var bindings []Value
		for _, b := range in.Bindings {
			bindings = append(bindings, fr.get(e, b))
		}
		fr.env[in] = &Closure{fn: in.Fn.(*ssa.Function), env: bindings}
	case *ssa.SliceToArrayPointer:
		panic(abortRun{kind: "unsupported", msg: "SliceToArrayPointer"})
	default:
		panic(abortRun{kind: "unsupported", msg: fmt.Sprintf("instruction %T in %s", instr, fr.fn)})
	}
	return false
}

func makeIface(t types.Type, v Value) Iface {
	switch x := v.(type) {
	case *ErrVal:
		if x == nil {
			return Iface{t: t, v: v}
		}
		return Iface{t: errValType, v: v}
	case *CtxVal:
		return Iface{t: getOpaqueType("sdk.Context"), v: v}
	}
	return Iface{t: t, v: v}
}

func (e *Exec) concreteInt(v Value, what string) int {
	t, ok := v.(*Term)
	if !ok {
		panic(abortRun{kind: "error", msg: fmt.Sprintf("%s: not an integer: %s", what, describe(v))})
	}
	if !t.IsConst() {
		panic(abortRun{kind: "unsupported", msg: fmt.Sprintf("symbolic %s: %s", what, t)})
	}
	if !t.val.IsInt64() {
		panic(abortRun{kind: "unsupported", msg: what + " too large"})
	}
	return int(t.val.Int64())
}

// ---------- calls ----------

func (e *Exec) prepareCall(fr *frame, instr ssa.Instruction, call *ssa.CallCommon) (Value, []Value) {
	v := fr.get(e, call.Value)
	var fn Value
	var args []Value
	if call.Method == nil {
		fn = v
	} else {
		recv, ok := v.(Iface)
		if !ok {
			panic(abortRun{kind: "error", msg: fmt.Sprintf("invoke on non-interface %s at %s", describe(v), e.pos(fr, instr))})
		}
		if recv.t == nil {
			e.goPanicf(fr, instr, "method %s invoked on nil interface", call.Method.Name())
		}
		fn = e.lookupMethod(recv, call.Method, fr, instr)
		args = append(args, recv.v)
	}
	for _, a := range call.Args {
		args = append(args, copyVal(fr.get(e, a)))
	}
	return fn, args
}

func (e *Exec) lookupMethod(recv Iface, m *types.Func, fr *frame, instr ssa.Instruction) Value {
	if recv.t == errValType {
		return &BoundIntrinsic{name: "err." + m.Name()}
	}
	if ot, ok := recv.t.(*opaqueType); ok {
		return &BoundIntrinsic{name: ot.name + "." + m.Name()}
	}
	f := e.prog.ssaProg.LookupMethod(recv.t, m.Pkg(), m.Name())
	if f == nil {
		panic(abortRun{kind: "error", msg: fmt.Sprintf("no method %s on %s at %s", m.Name(), recv.t, e.pos(fr, instr))})
	}
	return f
}

func (e *Exec) callAt(fn Value, args []Value, fr *frame, instr ssa.Instruction) Value {
	defer func() {
		if r := recover(); r != nil {
			if ab, ok := r.(abortRun); ok && (ab.kind == "unsupported" || ab.kind == "error") && !strings.Contains(ab.msg, "\n  called from") {
				ab.msg += "\n  called from " + e.pos(fr, instr)
				panic(ab)
			}
			if ab, ok := r.(abortRun); ok && (ab.kind == "unsupported" || ab.kind == "error") && strings.Count(ab.msg, "\n") < 12 {
				ab.msg += "\n    <- " + e.pos(fr, instr)
				panic(ab)
			}
			if gp, ok := r.(*goPanic); ok && gp.where == "" {
				gp.where = e.pos(fr, instr)
			}
			panic(r)
		}
	}()
	return e.call(fn, args, fr)
}

func (e *Exec) call(fn Value, args []Value, caller *frame) Value {
	switch f := fn.(type) {
	case *ssa.Function:
		if f == nil {
			panic(&goPanic{val: "call of nil function"})
		}
		return e.callFunction(f, args, nil, caller)
	case *Closure:
		return e.callFunction(f.fn, args, f.env, caller)
	case *ssa.Builtin:
		return e.callBuiltin(f, args, caller)
	case *BoundIntrinsic:
		in := intrinsics[f.name]
		if in == nil {
			panic(abortRun{kind: "unsupported", msg: "no intrinsic for method " + f.name})
		}
		e.noteIntrinsic(f.name)
		if f.recv != nil {
			args = append([]Value{f.recv}, args...)
		}
		return in(e, nil, args)
	case nil:
		panic(&goPanic{val: "call of nil function value"})
	}
	panic(abortRun{kind: "error", msg: fmt.Sprintf("cannot call %T", fn)})
}

func funcKey(f *ssa.Function) string {
	if o := f.Origin(); o != nil {
		f = o
	}
	return f.String()
}

func (e *Exec) callFunction(f *ssa.Function, args []Value, env []Value, caller *frame) (res Value) {
	if f.Name() == "init" && f.Synthetic != "" && f.Parent() == nil && len(args) == 0 {
		// another package's initialiser, reached from a package's init: not run
		return nil
	}
	key := funcKey(f)
	if e.initMode > 0 {
		pp := pkgPathOf(f)
		if !e.prog.inModule(pp) && !strings.HasPrefix(pp, "verif/harness") {
			if _, ok := intrinsics[key]; !ok {
				// unmodelled dependency call during package initialisation
				return zeroValueTuple(f.Signature.Results())
			}
		}
	}
	if in, ok := intrinsics[key]; ok {
		e.noteIntrinsic(key)
		return in(e, f, args)
	}
	// dependency packages are built lazily, on first entry. Build() is called unconditionally (it is a
	// sync.Once): testing f.Blocks first would let a worker run a function of a package that another worker
	// is still building, and reach a generic instance of that package whose body does not exist yet.
	if pk := pkgOfFunc(f); pk != nil && !e.prog.builtPkg(pk) {
		pk.Build()
		e.prog.markBuilt(pk)
	}
	if f.Blocks == nil {
		panic(abortRun{kind: "unsupported", msg: "external function without body or intrinsic: " + key})
	}
	if f.Pkg != nil && e.prog.denyPkg(f.Pkg.Pkg.Path()) {
		panic(abortRun{kind: "unsupported", msg: "call into unmodelled package: " + key})
	}
	return e.callSSA(f, args, env, caller)
}

func (e *Exec) callBuiltin(b *ssa.Builtin, args []Value, caller *frame) Value {
	switch b.Name() {
	case "append":
		s := args[0].(Slice)
		switch t := args[1].(type) {
		case Slice:
			if len(t.data) == 0 {
				return s
			}
			nd := append(s.data, t.data...)
			// aggregates have value semantics
			for i := len(s.data); i < len(nd); i++ {
				nd[i] = copyVal(nd[i])
			}
			return Slice{data: nd}
		case string:
			nd := s.data
			for i := 0; i < len(t); i++ {
				nd = append(nd, mkInt64(int64(t[i])))
			}
			return Slice{data: nd}
		}
		panic(abortRun{kind: "unsupported", msg: fmt.Sprintf("append of %T", args[1])})
	case "copy":
		dst := args[0].(Slice)
		switch src := args[1].(type) {
		case Slice:
			n := copy(dst.data, src.data)
			for i := 0; i < n; i++ {
				dst.data[i] = copyVal(dst.data[i])
			}
			return mkInt64(int64(n))
		case string:
			n := 0
			for i := 0; i < len(src) && i < len(dst.data); i++ {
				dst.data[i] = mkInt64(int64(src[i]))
				n++
			}
			return mkInt64(int64(n))
		}
	case "len":
		switch x := args[0].(type) {
		case string:
			return mkInt64(int64(len(x)))
		case Slice:
			return mkInt64(int64(len(x.data)))
		case Array:
			return mkInt64(int64(len(x)))
		case *MapVal:
			if x == nil {
				return tZero
			}
			return mkInt64(int64(len(x.keys)))
		case Ptr:
			if x == nil {
				return tZero
			}
			return mkInt64(int64(len((*x).(Array))))
		case *SymStr:
			panic(abortRun{kind: "unsupported", msg: "len of symbolic string"})
		}
	case "cap":
		switch x := args[0].(type) {
		case Slice:
			return mkInt64(int64(cap(x.data)))
		case Array:
			return mkInt64(int64(len(x)))
		}
	case "delete":
		m, _ := args[0].(*MapVal)
		if m != nil {
			e.mapDelete(m, args[1])
		}
		return nil
	case "print", "println":
		return nil
	case "recover":
		if n := len(e.recoverFrame); n > 0 {
			fr := e.recoverFrame[n-1]
			if fr.panicking {
				fr.panicking = false
				v := fr.panicVal.val
				fr.panicVal = nil
				if _, isI := v.(Iface); isI {
					return v
				}
				return Iface{t: stringType, v: v}
			}
		}
		return Iface{}
	case "min", "max":
		acc := args[0].(*Term)
		for _, a := range args[1:] {
			if b.Name() == "min" {
				acc = e.tc.Min(acc, a.(*Term))
			} else {
				acc = e.tc.Max(acc, a.(*Term))
			}
		}
		return acc
	case "ssa:wrapnilchk":
		if p, ok := args[0].(Ptr); ok && p == nil {
			panic(&goPanic{val: "value method called using nil pointer"})
		}
		return args[0]
	}
	panic(abortRun{kind: "unsupported", msg: "builtin " + b.Name()})
}

var stringType = types.Typ[types.String]

// ---------- operators ----------

func intInfo(t types.Type) (bits int, signed bool, ok bool) {
	b, isB := t.Underlying().(*types.Basic)
	if !isB || b.Info()&types.IsInteger == 0 {
		return 0, false, false
	}
	switch b.Kind() {
	case types.Int8:
		return 8, true, true
	case types.Int16:
		return 16, true, true
	case types.Int32:
		return 32, true, true
	case types.Int64, types.Int:
		return 64, true, true
	case types.Uint8:
		return 8, false, true
	case types.Uint16:
		return 16, false, true
	case types.Uint32:
		return 32, false, true
	case types.Uint64, types.Uint, types.Uintptr:
		return 64, false, true
	case types.UntypedInt, types.UntypedRune:
		return 64, true, true
	}
	return 0, false, false
}

func (e *Exec) wrap(t *Term, typ types.Type) *Term {
	bits, signed, ok := intInfo(typ)
	if !ok {
		return t
	}
	if signed {
		return e.tc.wrapSigned(t, bits)
	}
	return e.tc.wrapUnsigned(t, bits)
}

func (e *Exec) binop(fr *frame, instr ssa.Instruction, op token.Token, t types.Type, x, y Value) Value {
	tc := e.tc
	switch xv := x.(type) {
	case *Term:
		yv, ok := y.(*Term)
		if !ok {
			break
		}
		if xv.sort == SBool {
			switch op {
			case token.EQL:
				return tc.Eq(xv, yv)
			case token.NEQ:
				return tc.Not(tc.Eq(xv, yv))
			case token.AND, token.LAND:
				return tc.And(xv, yv)
			case token.OR, token.LOR:
				return tc.Or(xv, yv)
			}
			break
		}
		switch op {
		case token.ADD:
			return e.wrap(tc.Add(xv, yv), t)
		case token.SUB:
			return e.wrap(tc.Sub(xv, yv), t)
		case token.MUL:
			return e.wrap(tc.Mul(xv, yv), t)
		case token.QUO:
			if e.branch(tc.Eq(yv, tZero)) {
				e.goPanicf(fr, instr, "integer divide by zero")
			}
			return e.wrap(tc.TruncQuo(xv, yv), t)
		case token.REM:
			if e.branch(tc.Eq(yv, tZero)) {
				e.goPanicf(fr, instr, "integer divide by zero")
			}
			return e.wrap(tc.TruncRem(xv, yv), t)
		case token.EQL:
			return tc.Eq(xv, yv)
		case token.NEQ:
			return tc.Not(tc.Eq(xv, yv))
		case token.LSS:
			return tc.Lt(xv, yv)
		case token.LEQ:
			return tc.Le(xv, yv)
		case token.GTR:
			return tc.Lt(yv, xv)
		case token.GEQ:
			return tc.Le(yv, xv)
		case token.SHL, token.SHR, token.AND, token.OR, token.XOR, token.AND_NOT:
			if xv.IsConst() && yv.IsConst() {
				return e.wrap(mkInt(constBitop(op, xv.val, yv.val)), t)
			}
			if op == token.SHL && yv.IsConst() && yv.val.IsInt64() && yv.val.Int64() < 256 {
				return e.wrap(tc.Mul(xv, mkInt(pow2(int(yv.val.Int64())))), t)
			}
			if op == token.SHR && yv.IsConst() && yv.val.IsInt64() && yv.val.Int64() < 256 && xv.nonneg {
				return tc.floorDivPos(xv, mkInt(pow2(int(yv.val.Int64()))))
			}
			panic(abortRun{kind: "unsupported", msg: "symbolic bit operation " + op.String() + " at " + e.pos(fr, instr)})
		}
	case string:
		switch yv := y.(type) {
		case string:
			switch op {
			case token.ADD:
				return xv + yv
			case token.EQL:
				return mkBool(xv == yv)
			case token.NEQ:
				return mkBool(xv != yv)
			case token.LSS:
				return mkBool(xv < yv)
			case token.LEQ:
				return mkBool(xv <= yv)
			case token.GTR:
				return mkBool(xv > yv)
			case token.GEQ:
				return mkBool(xv >= yv)
			}
		case *SymStr:
			switch op {
			case token.EQL:
				return e.valEq(x, y)
			case token.NEQ:
				return tc.Not(e.valEq(x, y))
			case token.ADD:
				return &SymStr{kind: "cat", t: tZero, rest: xv + "‹" + yv.String() + "›"}
			}
		}
	case *SymStr:
		switch op {
		case token.EQL:
			return e.valEq(x, y)
		case token.NEQ:
			return tc.Not(e.valEq(x, y))
		case token.ADD:
			return &SymStr{kind: "cat", t: tZero, rest: xv.String() + "‹" + describe(y) + "›"}
		}
	}
	switch op {
	case token.EQL:
		return e.valEq(x, y)
	case token.NEQ:
		return e.tc.Not(e.valEq(x, y))
	}
	panic(abortRun{kind: "unsupported", msg: fmt.Sprintf("binop %s on %s, %s at %s", op, describe(x), describe(y), e.pos(fr, instr))})
}

func constBitop(op token.Token, x, y *big.Int) *big.Int {
	r := new(big.Int)
	switch op {
	case token.SHL:
		return r.Lsh(x, uint(y.Uint64()))
	case token.SHR:
		return r.Rsh(x, uint(y.Uint64()))
	case token.AND:
		return r.And(x, y)
	case token.OR:
		return r.Or(x, y)
	case token.XOR:
		return r.Xor(x, y)
	case token.AND_NOT:
		return r.AndNot(x, y)
	}
	return r
}

// valEq builds the (possibly symbolic) equality of two values of the same static type.
func (e *Exec) valEq(x, y Value) *Term {
	tc := e.tc
	switch xv := x.(type) {
	case nil:
		return mkBool(isNilValue(y))
	case *Term:
		if yv, ok := y.(*Term); ok {
			return tc.Eq(xv, yv)
		}
	case string:
		switch yv := y.(type) {
		case string:
			return mkBool(xv == yv)
		case *SymStr:
			return tFalse // structured symbolic strings never equal a plain literal we produce
		}
	case *SymStr:
		switch yv := y.(type) {
		case *SymStr:
			if xv.kind != yv.kind || xv.rest != yv.rest {
				return tFalse
			}
			return tc.Eq(xv.t, yv.t)
		case string:
			return tFalse
		}
	case Ptr:
		switch yv := y.(type) {
		case Ptr:
			return mkBool(xv == yv)
		case nil:
			return mkBool(xv == nil)
		}
	case Struct:
		if yv, ok := y.(Struct); ok && len(xv) == len(yv) {
			acc := tTrue
			for i := range xv {
				acc = tc.And(acc, e.valEq(xv[i], yv[i]))
			}
			return acc
		}
	case Array:
		if yv, ok := y.(Array); ok && len(xv) == len(yv) {
			acc := tTrue
			for i := range xv {
				acc = tc.And(acc, e.valEq(xv[i], yv[i]))
			}
			return acc
		}
	case Iface:
		switch yv := y.(type) {
		case Iface:
			if xv.t == nil || yv.t == nil {
				return mkBool(xv.t == nil && yv.t == nil)
			}
			if xv.t == errValType && yv.t == errValType {
				return mkBool(xv.v == yv.v || sameErr(xv.v, yv.v))
			}
			if !types.Identical(xv.t, yv.t) {
				return tFalse
			}
			return e.valEq(xv.v, yv.v)
		case nil:
			return mkBool(xv.t == nil)
		}
	case Slice:
		if isNilValue(y) {
			return mkBool(xv.null)
		}
	case *MapVal:
		if isNilValue(y) {
			return mkBool(xv == nil)
		}
	case *BigVal:
		// struct comparison of math.Int is pointer comparison in Go; not used by the module
	case *TimeVal:
		if yv, ok := y.(*TimeVal); ok {
			return tc.Eq(xv.ns, yv.ns)
		}
	case *ErrVal:
		if yv, ok := y.(*ErrVal); ok {
			return mkBool(xv == yv || sameErr(xv, yv))
		}
		if isNilValue(y) {
			return mkBool(xv == nil)
		}
	case *ssa.Function, *Closure:
		if isNilValue(y) {
			return tFalse
		}
	case *Opaque:
		if yv, ok := y.(*Opaque); ok {
			return mkBool(xv == yv || xv.name == yv.name && xv.data == yv.data)
		}
	case *PairVal:
		if yv, ok := y.(*PairVal); ok {
			return tc.And(e.valEq(xv.a, yv.a), e.valEq(xv.b, yv.b))
		}
	}
	if isNilValue(x) {
		return mkBool(isNilValue(y))
	}
	panic(abortRun{kind: "unsupported", msg: fmt.Sprintf("equality of %s and %s", describe(x), describe(y))})
}

func sameErr(a, b Value) bool {
	x, ok1 := a.(*ErrVal)
	y, ok2 := b.(*ErrVal)
	if !ok1 || !ok2 || x == nil || y == nil {
		return false
	}
	return x.wraps == nil && y.wraps == nil && len(x.chain) == 0 && len(y.chain) == 0 && x.root == y.root
}

func isNilValue(v Value) bool {
	switch x := v.(type) {
	case nil:
		return true
	case Ptr:
		return x == nil
	case Slice:
		return x.null
	case *MapVal:
		return x == nil
	case Iface:
		return x.t == nil
	case *ErrVal:
		return x == nil
	case *ssa.Function:
		return x == nil
	case *Closure:
		return x == nil
	}
	return false
}

func (e *Exec) unop(fr *frame, in *ssa.UnOp, x Value) Value {
	switch in.Op {
	case token.MUL: // load
		p, _ := x.(Ptr)
		if p == nil {
			if ev, ok := x.(*ErrVal); ok && ev != nil {
				// dereference of *errors.Error sentinel: yields the error "struct"
				return ev
			}
			e.goPanicf(fr, in, "nil pointer dereference (load)")
		}
		return copyVal(*p)
	case token.NOT:
		return e.tc.Not(x.(*Term))
	case token.SUB:
		return e.wrap(e.tc.Neg(x.(*Term)), in.Type())
	case token.XOR:
		t := x.(*Term)
		if t.IsConst() {
			return e.wrap(mkInt(new(big.Int).Not(t.val)), in.Type())
		}
	}
	panic(abortRun{kind: "unsupported", msg: "unop " + in.Op.String() + " at " + e.pos(fr, in)})
}

func (e *Exec) conv(fr *frame, instr ssa.Instruction, dst, src types.Type, x Value) Value {
	ud, us := dst.Underlying(), src.Underlying()
	switch d := ud.(type) {
	case *types.Basic:
		if d.Info()&types.IsInteger != 0 {
			if t, ok := x.(*Term); ok {
				return e.wrap(t, dst)
			}
			if o, ok := x.(*Opaque); ok && o.name == "float" {
				return mkInt64(int64(o.data.(float64)))
			}
		}
		if d.Info()&types.IsString != 0 {
			switch xv := x.(type) {
			case string, *SymStr:
				return xv
			case Slice:
				// []byte / []rune -> string (concrete only)
				if eb, ok := us.(*types.Slice); ok {
					if bk, ok := eb.Elem().Underlying().(*types.Basic); ok && bk.Kind() == types.Uint8 {
						bs := make([]byte, len(xv.data))
						for i, b := range xv.data {
							bs[i] = byte(e.concreteInt(b, "byte"))
						}
						return string(bs)
					}
				}
			case *Term:
				if xv.IsConst() {
					return string(rune(xv.val.Int64()))
				}
			}
		}
		if d.Info()&types.IsFloat != 0 {
			if t, ok := x.(*Term); ok && t.IsConst() {
				f, _ := new(big.Float).SetInt(t.val).Float64()
				return &Opaque{name: "float", data: f}
			}
			if o, ok := x.(*Opaque); ok {
				return o
			}
		}
		if d.Kind() == types.UnsafePointer {
			return x
		}
	case *types.Slice:
		if s, ok := x.(string); ok {
			if bk, ok := d.Elem().Underlying().(*types.Basic); ok && bk.Kind() == types.Uint8 {
				data := make([]Value, len(s))
				for i := 0; i < len(s); i++ {
					data[i] = mkInt64(int64(s[i]))
				}
				return Slice{data: data}
			}
		}
		if s, ok := x.(Slice); ok {
			return s
		}
	case *types.Pointer:
		return x
	}
	panic(abortRun{kind: "unsupported", msg: fmt.Sprintf("conversion %s -> %s of %s at %s", src, dst, describe(x), e.pos(fr, instr))})
}

func (e *Exec) sliceOp(fr *frame, in *ssa.Slice) Value {
	x := fr.get(e, in.X)
	lo, hi, mx := -1, -1, -1
	if in.Low != nil {
		lo = e.concreteInt(fr.get(e, in.Low), "slice low")
	}
	if in.High != nil {
		hi = e.concreteInt(fr.get(e, in.High), "slice high")
	}
	if in.Max != nil {
		mx = e.concreteInt(fr.get(e, in.Max), "slice max")
	}
	if lo < 0 {
		lo = 0
	}
	switch xv := x.(type) {
	case string:
		if hi < 0 {
			hi = len(xv)
		}
		if lo > hi || hi > len(xv) {
			e.goPanicf(fr, in, "slice bounds out of range [%d:%d] with length %d", lo, hi, len(xv))
		}
		return xv[lo:hi]
	case Slice:
		if hi < 0 {
			hi = len(xv.data)
		}
		if lo > hi || hi > cap(xv.data) {
			e.goPanicf(fr, in, "slice bounds out of range [%d:%d] with capacity %d", lo, hi, cap(xv.data))
		}
		if xv.null && lo == 0 && hi == 0 {
			return xv
		}
		if mx >= 0 {
			return Slice{data: xv.data[lo:hi:mx]}
		}
		return Slice{data: xv.data[lo:hi]}
	case Ptr:
		if xv == nil {
			e.goPanicf(fr, in, "slice of nil array pointer")
		}
		a := (*xv).(Array)
		if hi < 0 {
			hi = len(a)
		}
		if lo > hi || hi > len(a) {
			e.goPanicf(fr, in, "slice bounds out of range")
		}
		return Slice{data: []Value(a)[lo:hi]}
	}
	panic(abortRun{kind: "unsupported", msg: fmt.Sprintf("slice of %T", x)})
}

func (e *Exec) typeAssert(fr *frame, in *ssa.TypeAssert, x Value) Value {
	itf, ok := x.(Iface)
	if !ok {
		panic(abortRun{kind: "error", msg: fmt.Sprintf("typeassert on non-interface %s at %s", describe(x), e.pos(fr, in))})
	}
	var res Value
	okk := false
	if itf.t != nil {
		if it, isI := in.AssertedType.Underlying().(*types.Interface); isI {
			if itf.t == errValType {
				okk = it.NumMethods() == 0 || (it.NumMethods() == 1 && it.Method(0).Name() == "Error")
			} else if ot, isO := itf.t.(*opaqueType); isO {
				_ = ot
				okk = true // opaque models are assumed to implement what the code asks of them
			} else {
				okk = types.Implements(itf.t, it) || types.Implements(types.NewPointer(itf.t), it) && false
			}
			if okk {
				res = itf
			}
		} else {
			if itf.t == errValType {
				okk = false
				if pt, isP := in.AssertedType.(*types.Pointer); isP && namedPath(pt.Elem()) == "cosmossdk.io/errors.Error" {
					okk = true
					res = itf.v
				}
			} else if types.Identical(itf.t, in.AssertedType) {
				okk = true
				res = itf.v
			}
		}
	}
	if in.CommaOk {
		if !okk {
			res = zeroValue(in.AssertedType)
		}
		return Tuple{res, mkBool(okk)}
	}
	if !okk {
		ts := "nil"
		if itf.t != nil {
			ts = itf.t.String()
		}
		e.goPanicf(fr, in, "interface conversion: interface is %s, not %s", ts, in.AssertedType)
	}
	return res
}

// ---------- maps ----------

func (e *Exec) mapFind(m *MapVal, key Value) int {
	for i, k := range m.keys {
		c := e.valEq(k, key)
		if c.IsConst() {
			if c.b {
				return i
			}
			continue
		}
		if e.branch(c) {
			return i
		}
	}
	return -1
}

func (e *Exec) mapSet(m *MapVal, key, val Value) {
	if i := e.mapFind(m, key); i >= 0 {
		m.vals[i] = val
		return
	}
	m.keys = append(m.keys, key)
	m.vals = append(m.vals, val)
}

func (e *Exec) mapDelete(m *MapVal, key Value) {
	if i := e.mapFind(m, key); i >= 0 {
		m.keys = append(m.keys[:i:i], m.keys[i+1:]...)
		m.vals = append(m.vals[:i:i], m.vals[i+1:]...)
	}
}

func (e *Exec) lookup(fr *frame, in *ssa.Lookup) Value {
	x := fr.get(e, in.X)
	idx := fr.get(e, in.Index)
	switch xv := x.(type) {
	case string:
		i := e.concreteInt(idx, "string index")
		if i < 0 || i >= len(xv) {
			e.goPanicf(fr, in, "string index out of range")
		}
		return mkInt64(int64(xv[i]))
	case *MapVal:
		vt := in.X.Type().Underlying().(*types.Map).Elem()
		var v Value
		found := false
		if xv != nil {
			if i := e.mapFind(xv, idx); i >= 0 {
				v = copyVal(xv.vals[i])
				found = true
			}
		}
		if !found {
			v = zeroValue(vt)
		}
		if in.CommaOk {
			return Tuple{v, mkBool(found)}
		}
		return v
	}
	panic(abortRun{kind: "unsupported", msg: fmt.Sprintf("lookup on %T", x)})
}

// ---------- range ----------

type iterator interface {
	next(e *Exec) Value
}

type mapIter struct {
	m     *MapVal
	order []int
	pos   int
	keys  []Value
	vals  []Value
}

func (it *mapIter) next(e *Exec) Value {
	if it.pos >= len(it.order) {
		return Tuple{tFalse, nil, nil}
	}
	i := it.order[it.pos]
	it.pos++
	return Tuple{tTrue, it.keys[i], copyVal(it.vals[i])}
}

type strIter struct {
	s   string
	pos int
}

func (it *strIter) next(e *Exec) Value {
	if it.pos >= len(it.s) {
		return Tuple{tFalse, tZero, tZero}
	}
	for i, r := range it.s[it.pos:] {
		_ = i
		p := it.pos
		it.pos += len(string(r))
		return Tuple{tTrue, mkInt64(int64(p)), mkInt64(int64(r))}
	}
	return Tuple{tFalse, tZero, tZero}
}

func (e *Exec) rangeIter(fr *frame, in *ssa.Range, x Value) Value {
	switch xv := x.(type) {
	case string:
		return &strIter{s: xv}
	case *MapVal:
		it := &mapIter{m: xv}
		if xv == nil {
			return it
		}
		n := len(xv.keys)
		it.keys = append([]Value(nil), xv.keys...)
		it.vals = append([]Value(nil), xv.vals...)
		it.order = make([]int, n)
		for i := range it.order {
			it.order[i] = i
		}
		site := e.pos(fr, in)
		e.noteMapRange(site, n)
		if e.permuteMaps && n >= 2 && n <= 4 && (e.prog.inModule(pkgPathOf(fr.fn)) || strings.HasSuffix(pkgPathOf(fr.fn), "/maps") || pkgPathOf(fr.fn) == "maps") && !(e.permuteSingle && e.permuteUsed) {
			nperm := 1
			for i := 2; i <= n; i++ {
				nperm *= i
			}
			e.mapOrderSeq++
			k := e.pick(fmt.Sprintf("maporder@%s#%d", site, e.mapOrderSeq), nperm)
			it.order = nthPermutation(n, k)
			if k != 0 {
				e.permuteUsed = true
			}
			e.mapOrders = append(e.mapOrders, fmt.Sprintf("%s:%v", site, it.order))
		}
		return it
	}
	panic(abortRun{kind: "unsupported", msg: fmt.Sprintf("range over %T", x)})
}

func pkgOfFunc(f *ssa.Function) *ssa.Package {
	for f.Parent() != nil {
		f = f.Parent()
	}
	if f.Pkg != nil {
		return f.Pkg
	}
	if o := f.Origin(); o != nil && o.Pkg != nil {
		return o.Pkg
	}
	if f.Object() != nil && f.Object().Pkg() != nil {
		return f.Prog.Package(f.Object().Pkg())
	}
	return nil
}

func pkgPathOf(f *ssa.Function) string {
	for f.Parent() != nil {
		f = f.Parent()
	}
	if f.Pkg != nil {
		return f.Pkg.Pkg.Path()
	}
	if o := f.Origin(); o != nil && o.Pkg != nil {
		return o.Pkg.Pkg.Path()
	}
	if f.Object() != nil && f.Object().Pkg() != nil {
		return f.Object().Pkg().Path()
	}
	return ""
}

func nthPermutation(n, k int) []int {
	elems := make([]int, n)
	for i := range elems {
		elems[i] = i
	}
	fact := make([]int, n+1)
	fact[0] = 1
	for i := 1; i <= n; i++ {
		fact[i] = fact[i-1] * i
	}
	var out []int
	for i := n; i >= 1; i-- {
		f := fact[i-1]
		idx := k / f
		k = k % f
		out = append(out, elems[idx])
		elems = append(elems[:idx:idx], elems[idx+1:]...)
	}
	return out
}
