package main

import (
	"fmt"
	"go/types"
	"os"
	"sort"
	"strings"
	"sync"
	"sync/atomic"
	"time"

	"golang.org/x/tools/go/ssa"
)

var errValType types.Type = types.NewNamed(types.NewTypeName(0, nil, "errVal", nil), types.NewStruct(nil, nil), nil)

type opaqueType struct {
	*types.Named
	name string
}

var opaqueTypes = map[string]*opaqueType{}
var opaqueTypesMu sync.Mutex

func getOpaqueType(name string) *opaqueType {
	opaqueTypesMu.Lock()
	defer opaqueTypesMu.Unlock()
	if t, ok := opaqueTypes[name]; ok {
		return t
	}
	t := &opaqueType{Named: types.NewNamed(types.NewTypeName(0, nil, "opaque:"+name, nil), types.NewStruct(nil, nil), nil), name: name}
	opaqueTypes[name] = t
	return t
}

// decision codes: 0/1 free boolean choice (false/true), 2/3 forced false/true,
// 100+k: pick alternative k.
type pickRec struct {
	Name string
	Val  int
}

// Exec executes one symbolic path.
type Exec struct {
	prog   *Program
	h      *HarnessRun
	tc     *TermCtx
	solver *Solver

	decisions  []int // prefix to replay
	dpos       int
	taken      []int // all decisions taken on this path
	alts       []workItem
	picks      []pickRec
	model      *Model // a model of the current path condition, or nil
	modelHits  int
	timeVars   int
	searchHits int

	known map[*Term]bool
	pc    []*Term

	globals        map[*ssa.Global]Ptr
	globalOverride map[string]Value
	steps          int
	maxSteps       int
	depth          int
	trace          bool
	mapSeq         int
	recoverFrame   []*frame

	permuteMaps   bool
	mapOrders     []string
	mapOrderSeq   int
	permuteSingle bool
	permuteUsed   bool

	// environment model
	env *EnvState

	knownConds []knownCond
	observed   []obsRec
	modelOpen  bool
	pkgInited  map[*ssa.Package]bool
	initMode   int
	lastPanic  string

	enteredLocal  map[*ssa.Function]int
	intrLocal     map[string]int
	mapRangeLocal map[string]int
	branches      int
	overflowOn    bool
}

type workItem struct {
	decisions []int
	model     map[string]string
}

type knownCond struct {
	id   string
	cond *Term
}

type obsRec struct {
	name string
	val  Value
}

func (e *Exec) replaying() bool { return e.dpos < len(e.decisions) }

func (e *Exec) flush() {
	if len(e.tc.pending) > 0 {
		for _, l := range e.tc.pending {
			e.solver.send(l)
			e.tc.log = append(e.tc.log, l)
		}
		e.tc.pending = e.tc.pending[:0]
	}
}

// learn records sign facts implied by a condition that now holds on the path;
// they only enable simplifications that are valid under the path condition.
func (e *Exec) learn(c *Term, val bool) {
	if c.op == "not" {
		e.learn(c.args[0], !val)
		return
	}
	isZero := func(t *Term) bool { return t.IsConst() && t.sort == SInt && t.val.Sign() == 0 }
	switch c.op {
	case "<":
		a, b := c.args[0], c.args[1]
		if val && a.IsConst() && a.val.Sign() >= 0 {
			b.pos, b.nonneg = true, true
		}
		if !val && isZero(b) { // not (a < 0)
			a.nonneg = true
		}
		if !val && a.IsConst() && a.val.Sign() <= 0 && b.nonneg { // not (0 < b) and b >= 0: b == 0
		}
	case "<=":
		a, b := c.args[0], c.args[1]
		if val && a.IsConst() && a.val.Sign() >= 0 {
			b.nonneg = true
			if a.val.Sign() > 0 {
				b.pos = true
			}
		}
		if !val && isZero(b) { // not (a <= 0)  => a > 0
			a.pos, a.nonneg = true, true
		}
	case "=":
		a, b := c.args[0], c.args[1]
		if !val {
			if isZero(a) && b.nonneg {
				b.pos = true
			}
			if isZero(b) && a.nonneg {
				a.pos = true
			}
		}
	case "and":
		if val {
			for _, x := range c.args {
				e.learn(x, true)
			}
		}
	case "or":
		if !val {
			for _, x := range c.args {
				e.learn(x, false)
			}
		}
	}
}

func (e *Exec) assertTerm(t *Term) {
	if t.IsConst() && t.b {
		return
	}
	e.learn(t, true)
	e.flush()
	l := "(assert " + t.ref + ")"
	e.solver.send(l)
	e.tc.log = append(e.tc.log, l)
	e.pc = append(e.pc, t)
}

// checkWith asks whether pc ∧ extra is satisfiable.
func (e *Exec) checkWith(extra *Term, timeoutMs int) string {
	if e.solver.dead {
		panic(abortRun{kind: "inconclusive", msg: "solver process died"})
	}
	e.flush()
	e.solver.Push()
	e.solver.send("(assert " + extra.ref + ")")
	r := e.solver.Check(timeoutMs)
	if r == "sat" || e.solver.dead {
		// caller may want the model: keep frame until popModel
		e.modelOpen = true
		return r
	}
	e.solver.Pop()
	return r
}

// fetchModel reads the values of all declared variables from the solver (after a sat answer).
func (e *Exec) fetchModel() map[string]string {
	var refs []string
	for _, v := range e.tc.vars {
		refs = append(refs, v.ref)
	}
	vals := e.solver.GetValues(refs)
	out := make(map[string]string, len(vals))
	for _, v := range e.tc.vars {
		out[strings.Trim(v.ref, "|")] = normVal(vals[v.ref])
	}
	return out
}

func (e *Exec) copyModelVals() map[string]string {
	if e.model == nil {
		return nil
	}
	out := make(map[string]string, len(e.model.vals))
	for k, v := range e.model.vals {
		out[k] = v
	}
	return out
}

// ensureModel makes sure a model of the path condition is available (one query if not).
func (e *Exec) ensureModel() bool {
	if e.model != nil {
		return true
	}
	r := e.checkWith(tTrue, e.h.feasTimeoutMs)
	if r == "sat" {
		e.model = newModel(e.fetchModel())
	}
	e.popModel()
	return e.model != nil
}

// holds evaluates c under the current model: (value, known).
func (e *Exec) holds(c *Term) (bool, bool) {
	if e.model == nil {
		return false, false
	}
	return e.model.evalBool(c)
}

// popModel must be called after a "sat" checkWith once the model is no longer needed.
func (e *Exec) popModel() {
	if e.modelOpen {
		e.modelOpen = false
		if !e.solver.dead {
			e.solver.Pop()
		}
	}
}

// branch decides a symbolic condition on this path, forking when both sides are feasible.
func (e *Exec) branch(c *Term) bool {
	if c.IsConst() {
		return c.b
	}
	if v, ok := e.known[c]; ok {
		return v
	}
	if c.op == "not" {
		if v, ok := e.known[c.args[0]]; ok {
			return !v
		}
	}
	e.branches++
	if e.replaying() {
		d := e.decisions[e.dpos]
		e.dpos++
		e.taken = append(e.taken, d)
		val := d == 1 || d == 3
		if d <= 1 {
			if val {
				e.assertTerm(c)
			} else {
				e.assertTerm(e.tc.Not(c))
			}
		} else if d > 3 {
			panic(abortRun{kind: "error", msg: "decision desynchronised (expected boolean)"})
		}
		e.known[c] = val
		e.learn(c, val)
		return val
	}
	notC := e.tc.Not(c)
	mv, mok := e.holds(c)
	var feasT, feasF string
	var modelT, modelF map[string]string
	if mok {
		e.modelHits++
		if mv {
			feasT = "sat"
		} else {
			feasF = "sat"
		}
	}
	if feasT == "" {
		if m := e.searchModel(c); m != nil {
			feasT, modelT = "sat", m
			e.searchHits++
		}
	}
	if feasT == "" {
		feasT = e.checkWith(c, e.h.feasTimeoutMs)
		if feasT == "sat" {
			modelT = e.fetchModel()
		}
		e.popModel()
	}
	if feasT == "unsat" && feasF == "" {
		feasF = "sat" // the path condition is satisfiable by invariant
	}
	if feasF == "" {
		if m := e.searchModel(notC); m != nil {
			feasF, modelF = "sat", m
			e.searchHits++
		}
	}
	if feasF == "" {
		feasF = e.checkWith(notC, e.h.feasTimeoutMs)
		if feasF == "sat" {
			modelF = e.fetchModel()
		}
		e.popModel()
	}
	setModel := func(keep bool, m map[string]string) {
		if keep {
			return
		}
		if m != nil {
			e.model = newModel(m)
		} else {
			e.model = nil
		}
	}
	if feasT == "unsat" {
		e.taken = append(e.taken, 2)
		e.known[c] = false
		e.learn(c, false)
		setModel(mok && !mv, modelF)
		return false
	}
	if feasF == "unsat" {
		e.taken = append(e.taken, 3)
		e.known[c] = true
		e.learn(c, true)
		setModel(mok && mv, modelT)
		return true
	}
	if feasT == "unknown" || feasF == "unknown" {
		e.h.noteFeasUnknown()
	}
	// both feasible (or unknown): continue on the side the model takes, schedule the other
	if !(mok && !mv) {
		e.alts = append(e.alts, workItem{decisions: append(append([]int(nil), e.taken...), 0), model: modelF})
		e.taken = append(e.taken, 1)
		setModel(mok && mv, modelT)
		e.assertTerm(c)
		e.known[c] = true
		return true
	}
	e.alts = append(e.alts, workItem{decisions: append(append([]int(nil), e.taken...), 1), model: modelT})
	e.taken = append(e.taken, 0)
	e.assertTerm(notC)
	e.known[c] = false
	return false
}

// pick is a concrete n-way choice (shape enumeration).
func (e *Exec) pick(name string, n int) int {
	if n <= 0 {
		panic(abortRun{kind: "error", msg: "pick with n<=0: " + name})
	}
	for _, p := range e.picks {
		if p.Name == name {
			return p.Val // the same named choice asked twice on a path
		}
	}
	if n == 1 {
		e.picks = append(e.picks, pickRec{name, 0})
		return 0
	}
	if fixed, ok := e.h.fixedPicks[name]; ok {
		if fixed < 0 || fixed >= n {
			panic(abortRun{kind: "infeasible", msg: "fixed pick out of range"})
		}
		e.picks = append(e.picks, pickRec{name, fixed})
		return fixed
	}
	var k int
	if e.replaying() {
		d := e.decisions[e.dpos]
		e.dpos++
		if d < 100 {
			panic(abortRun{kind: "error", msg: "decision desynchronised (expected pick) at " + name})
		}
		k = d - 100
	} else {
		k = 0
		for alt := 1; alt < n; alt++ {
			a := append(append([]int(nil), e.taken...), 100+alt)
			e.alts = append(e.alts, workItem{decisions: a, model: e.copyModelVals()})
		}
	}
	e.taken = append(e.taken, 100+k)
	e.picks = append(e.picks, pickRec{name, k})
	return k
}

func (e *Exec) assume(c *Term) {
	if c.IsConst() {
		if !c.b {
			panic(abortRun{kind: "infeasible", msg: "assume(false)"})
		}
		return
	}
	if v, ok := e.known[c]; ok {
		if !v {
			panic(abortRun{kind: "infeasible", msg: "assume contradicts path"})
		}
		return
	}
	if !e.replaying() {
		if v, ok := e.holds(c); ok && v {
			e.modelHits++
		} else {
			r := e.checkWith(c, e.h.feasTimeoutMs)
			if r == "sat" {
				e.model = newModel(e.fetchModel())
			} else {
				e.model = nil
			}
			e.popModel()
			if r == "unsat" {
				panic(abortRun{kind: "infeasible", msg: "assumption infeasible"})
			}
			if r == "unknown" {
				e.h.noteFeasUnknown()
			}
		}
	}
	e.assertTerm(c)
	e.known[c] = true
}

// model extraction for scenarios
func (e *Exec) scenarioFromModel(kind, label string, m *Model) *Scenario {
	sc := &Scenario{Property: e.h.property, Harness: harnessFunc(e.h.name), Kind: kind, Label: label,
		Picks: map[string]int{}, Values: map[string]string{}, Solver: "model-eval", Observe: map[string]string{},
		Params: e.h.params, Tier: e.h.tier}
	for _, p := range e.picks {
		sc.Picks[p.Name] = p.Val
	}
	for k, v := range e.h.fixedPicks {
		sc.Picks[k] = v
	}
	for _, v := range e.tc.vars {
		name := strings.Trim(v.ref, "|")
		sc.Values[name] = m.vals[name]
	}
	for _, o := range e.observed {
		for _, it := range flattenObs(o.name, o.val) {
			if it.t != nil {
				r := m.eval(it.t)
				if !r.ok {
					continue
				}
				if it.t.sort == SBool {
					sc.Observe[it.name] = fmt.Sprint(r.b)
				} else {
					sc.Observe[it.name] = r.i.String()
				}
			} else {
				sc.Observe[it.name] = it.s
			}
		}
	}
	sc.MapOrders = append([]string(nil), e.mapOrders...)
	return sc
}

func (e *Exec) currentScenario(kind, label string) *Scenario {
	sc := &Scenario{Property: e.h.property, Harness: harnessFunc(e.h.name), Kind: kind, Label: label,
		Picks: map[string]int{}, Values: map[string]string{}, Solver: e.solver.name, Observe: map[string]string{},
		Params: e.h.params, Tier: e.h.tier}
	for _, p := range e.picks {
		sc.Picks[p.Name] = p.Val
	}
	for k, v := range e.h.fixedPicks {
		sc.Picks[k] = v
	}
	var refs []string
	for _, v := range e.tc.vars {
		refs = append(refs, v.ref)
	}
	vals := e.solver.GetValues(refs)
	for _, v := range e.tc.vars {
		name := strings.Trim(v.ref, "|")
		sc.Values[name] = vals[v.ref]
	}
	// observations: evaluate terms under the model
	var orefs []string
	var onames []string
	for _, o := range e.observed {
		for _, it := range flattenObs(o.name, o.val) {
			if it.t != nil {
				if it.t.IsConst() {
					sc.Observe[it.name] = constText(it.t)
				} else {
					orefs = append(orefs, it.t.ref)
					onames = append(onames, it.name)
				}
			} else {
				sc.Observe[it.name] = it.s
			}
		}
	}
	if len(orefs) > 0 {
		e.flush()
		ov := e.solver.GetValues(orefs)
		for i, r := range orefs {
			sc.Observe[onames[i]] = ov[r]
		}
	}
	sc.MapOrders = append([]string(nil), e.mapOrders...)
	return sc
}

func harnessFunc(key string) string {
	if i := strings.Index(key, "#"); i > 0 {
		return key[:i]
	}
	return key
}

func constText(t *Term) string {
	if t.sort == SBool {
		if t.b {
			return "true"
		}
		return "false"
	}
	return t.val.String()
}

type obsItem struct {
	name string
	t    *Term
	s    string
}

func flattenObs(name string, v Value) []obsItem {
	switch x := v.(type) {
	case nil:
		return []obsItem{{name: name, s: "<nil>"}}
	case *Term:
		return []obsItem{{name: name, t: x}}
	case *BigVal:
		if x.isNil {
			return []obsItem{{name: name, s: "<nil>"}}
		}
		return []obsItem{{name: name, t: x.t}}
	case *TimeVal:
		return []obsItem{{name: name, t: x.ns}}
	case string:
		return []obsItem{{name: name, s: x}}
	case Iface:
		if x.t == nil {
			return []obsItem{{name: name, s: "<nil>"}}
		}
		if _, ok := x.v.(*ErrVal); ok {
			return []obsItem{{name: name, s: "err"}}
		}
		return flattenObs(name, x.v)
	case *ErrVal:
		if x == nil {
			return []obsItem{{name: name, s: "<nil>"}}
		}
		return []obsItem{{name: name, s: "err"}}
	case Struct:
		var out []obsItem
		for i, f := range x {
			out = append(out, flattenObs(fmt.Sprintf("%s.%d", name, i), f)...)
		}
		return out
	case *SymStr:
		return []obsItem{{name: name, t: x.t}}
	}
	return []obsItem{{name: name, s: describe(v)}}
}

// ---------- harness-level bookkeeping shared by all paths ----------

type Scenario struct {
	Property  string            `json:"property"`
	Harness   string            `json:"harness"`
	Kind      string            `json:"kind"`
	Label     string            `json:"label"`
	Picks     map[string]int    `json:"picks"`
	Values    map[string]string `json:"values"`
	Observe   map[string]string `json:"observe,omitempty"`
	MapOrders []string          `json:"map_orders,omitempty"`
	Solver    string            `json:"solver"`
	RepoRev   string            `json:"repo_rev,omitempty"`
	KnownID   string            `json:"known_id,omitempty"`
	Params    map[string]int    `json:"params,omitempty"`
	Tier      string            `json:"tier,omitempty"`
	Where     string            `json:"where,omitempty"`
}

type labelStat struct {
	checked      int
	discharged   int
	violated     int
	inconclusive int
	trivial      int
}

type HarnessRun struct {
	prog     *Program
	name     string
	property string
	fn       *ssa.Function
	tier     string

	feasTimeoutMs   int
	assertTimeoutMs int
	maxSteps        int
	maxPaths        int
	permuteMaps     bool
	overflowOn      bool
	fixedPicks      map[string]int
	knownActive     map[string]bool
	groups          map[string]bool // assertion label prefixes to check (nil = all)

	mu          sync.Mutex
	queue       []workItem
	active      int
	cond        *sync.Cond
	paths       int
	completed   int
	infeasible  int
	panicked    int
	aborted     map[string]int
	abortMsgs   map[string]int
	branchTotal int
	feasUnknown int
	modelHits   int
	searchHits  int
	fuzzHits    int
	// sampled second opinion on discharged assertions (a different solver on the same script)
	crossEvery    int64
	unsatSeen     int64
	crossChecked  int
	disagreements int
	violCount     int
	failFastAfter int
	failFast      bool
	fuzzBudget    int
	seed          int
	labels        map[string]*labelStat
	covers        map[string]*Scenario
	coverHits     map[string]int
	violations    []*Scenario
	knownHits     map[string]*Scenario
	entered       map[string]int
	intrinsics    map[string]int
	mapRanges     map[string]int
	samplePicks   []map[string]int
	shapes        map[string]int
	assumptions   map[string]int
	params        map[string]int
	start         time.Time
	stopped       bool
	pathLimitHit  bool
}

func (h *HarnessRun) noteFeasUnknown() {
	h.mu.Lock()
	h.feasUnknown++
	h.mu.Unlock()
}

func (e *Exec) noteEntered(fn *ssa.Function) {
	e.enteredLocal[fn]++
}

func (e *Exec) noteIntrinsic(name string) {
	e.intrLocal[name]++
}

func (e *Exec) noteMapRange(site string, n int) {
	if e.mapRangeLocal == nil {
		e.mapRangeLocal = map[string]int{}
	}
	if n > e.mapRangeLocal[site] {
		e.mapRangeLocal[site] = n
	}
}

func (h *HarnessRun) labelWanted(label string) bool {
	if h.groups == nil {
		return true
	}
	for g := range h.groups {
		if strings.HasPrefix(label, g) {
			return true
		}
	}
	return false
}

// doAssert implements nd.Assert.
func (e *Exec) doAssert(label string, c *Term) {
	h := e.h
	if !h.labelWanted(label) {
		return
	}
	if e.replaying() {
		// checked by the parent path already; keep the path condition identical
		e.assumeAfterAssert(c)
		return
	}
	st := func() *labelStat {
		s := h.labels[label]
		if s == nil {
			s = &labelStat{}
			h.labels[label] = s
		}
		return s
	}
	if c.IsConst() && c.b {
		h.mu.Lock()
		s := st()
		s.checked++
		s.discharged++
		s.trivial++
		h.mu.Unlock()
		return
	}
	if v, ok := e.known[c]; ok && v {
		h.mu.Lock()
		s := st()
		s.checked++
		s.discharged++
		s.trivial++
		h.mu.Unlock()
		return
	}
	neg := e.tc.Not(c)
	// exclude active known findings
	var knownOr []*Term
	for _, k := range e.knownConds {
		if h.knownActive[k.id] {
			knownOr = append(knownOr, k.cond)
		}
	}
	q := neg
	if len(knownOr) > 0 {
		q = e.tc.And(neg, e.tc.Not(e.tc.Or(knownOr...)))
	}
	var r string
	var viol *Scenario
	if v, ok := e.holds(q); ok && v {
		// the current model of the path already violates the assertion
		r = "sat"
		viol = e.scenarioFromModel("violation", label, e.model)
	} else {
		h.mu.Lock()
		tmo := h.assertTimeoutMs
		hard := false
		if ls := h.labels[label]; ls != nil && ls.inconclusive >= 3 {
			tmo, hard = 5000, true
		}
		h.mu.Unlock()
		r = e.checkWith(q, tmo)
		if r == "sat" {
			viol = e.currentScenario("violation", label)
		}
		e.popModel()
		if r == "unsat" && h.crossEvery > 0 && atomic.AddInt64(&h.unsatSeen, 1)%h.crossEvery == 0 {
			e.crossCheck(label, q)
		}
		if r == "unknown" && !hard {
			// a fresh (non-incremental) run of the primary solver often decides what its incremental session could not
			r = e.freshPrimary(q)
		}
		if r == "unknown" {
			if d := os.Getenv("GOSYM_DUMP_UNKNOWN"); d != "" {
				e.flush()
				var sb strings.Builder
				for _, l := range e.tc.log {
					sb.WriteString(l)
					sb.WriteByte('\n')
				}
				sb.WriteString("(assert " + q.ref + ")\n(check-sat)\n")
				os.MkdirAll(d, 0o755)
				os.WriteFile(fmt.Sprintf("%s/%s-%d.smt2", d, strings.NewReplacer("/", "_", " ", "_").Replace(label), len(e.taken)), []byte(sb.String()), 0o644)
			}
		}
		if r == "unknown" {
			// second attempt: the same query with the defining inequalities of its symbolic divisions spelled out
			if ls := e.tc.divLemmas(append([]*Term{q}, e.pc...)); len(ls) > 0 {
				e.flush()
				e.solver.Push()
				for _, l := range ls {
					e.flush()
					e.solver.send("(assert " + l.ref + ")")
				}
				r2 := e.checkWith(q, tmo)
				if r2 == "sat" {
					viol = e.currentScenario("violation", label)
				}
				e.popModel()
				e.solver.Pop()
				if r2 != "unknown" {
					r = r2
					h.mu.Lock()
					h.intrinsics["second-attempt-with-div-lemmas:"+r2]++
					h.mu.Unlock()
				}
			}
		}
		if r == "unknown" {
			// the solver could not decide: look for a concrete counterexample by a random walk from the path's model
			if e.model == nil {
				e.ensureModel()
			}
			if fm := e.fuzzViolation(q, h.fuzzBudget); fm != nil {
				r = "sat"
				viol = e.scenarioFromModel("violation", label, newModel(fm))
				viol.Solver = "concrete-search"
				h.mu.Lock()
				h.fuzzHits++
				h.mu.Unlock()
			}
		}
		if r == "unknown" && !hard {
			r = e.portfolio(q)
		}
	}
	var hits []*Scenario
	if r != "unknown" {
		for _, k := range e.knownConds {
			if !h.knownActive[k.id] {
				continue
			}
			rk := e.checkWith(e.tc.And(neg, k.cond), h.assertTimeoutMs)
			if rk == "sat" {
				sc := e.currentScenario("known-finding", label)
				sc.KnownID = k.id
				hits = append(hits, sc)
			}
			e.popModel()
		}
	}
	h.mu.Lock()
	s := st()
	s.checked++
	switch r {
	case "unsat":
		s.discharged++
	case "sat":
		s.violated++
		if len(h.violations) < 200 {
			h.violations = append(h.violations, viol)
		}
		// fail fast: a handful of counterexamples is enough to decide the check
		h.violCount++
		if h.violCount >= h.failFastAfter && h.failFastAfter > 0 {
			h.stopped = true
			h.failFast = true
		}
	default:
		s.inconclusive++
	}
	for _, sc := range hits {
		if _, ok := h.knownHits[sc.KnownID]; !ok {
			h.knownHits[sc.KnownID] = sc
		}
	}
	h.mu.Unlock()
	e.assumeAfterAssert(c)
}

func (e *Exec) assumeAfterAssert(c *Term) {
	if c.IsConst() {
		// a constantly false assertion has been reported; the path goes on unconstrained
		return
	}
	if !e.replaying() {
		if v, ok := e.holds(c); ok && v {
			e.modelHits++
		} else {
			r := e.checkWith(c, e.h.feasTimeoutMs)
			if r == "sat" {
				e.model = newModel(e.fetchModel())
			} else {
				e.model = nil
			}
			e.popModel()
			if r == "unsat" {
				panic(abortRun{kind: "done", msg: "assertion fails on every input of this path"})
			}
		}
	}
	e.assertTerm(c)
	e.known[c] = true
}

// portfolio re-asks an undecided query of the other solvers with a standalone script.
func (e *Exec) portfolio(q *Term) string { return e.portfolioOf(q, []string{"cvc5", "z3"}) }

// freshPrimary re-asks the query of a fresh, non-incremental run of the primary solver.
func (e *Exec) freshPrimary(q *Term) string { return e.portfolioOf(q, []string{e.solver.name}) }

func (e *Exec) portfolioOf(q *Term, names []string) string {
	e.flush()
	var sb strings.Builder
	for _, l := range e.tc.log {
		sb.WriteString(l)
		sb.WriteByte('\n')
	}
	sb.WriteString("(assert " + q.ref + ")\n(check-sat)\n")
	script := sb.String()
	for _, name := range names {
		r := runOneShot(name, script, e.h.assertTimeoutMs)
		if r == "sat" || r == "unsat" {
			e.h.mu.Lock()
			e.h.intrinsics["portfolio:"+name+":"+r]++
			e.h.mu.Unlock()
			if r == "sat" {
				// no model available through the incremental solver: treat as inconclusive
				return "unknown"
			}
			return r
		}
	}
	return "unknown"
}

// crossCheck hands a query the primary solver answered "unsat" to another solver as a one-shot script.
// A "sat" there is a solver disagreement (or an encoding the two read differently): reported, exit 2.
func (e *Exec) crossCheck(label string, q *Term) {
	e.flush()
	var sb strings.Builder
	for _, l := range e.tc.log {
		sb.WriteString(l)
		sb.WriteByte('\n')
	}
	sb.WriteString("(assert " + q.ref + ")\n(check-sat)\n")
	other := "cvc5"
	if e.solver.name == "cvc5" {
		other = "z3"
	}
	r := runOneShot(other, sb.String(), 10000)
	h := e.h
	h.mu.Lock()
	defer h.mu.Unlock()
	h.crossChecked++
	h.intrinsics["cross-check:"+other+":"+r]++
	if r == "sat" {
		h.disagreements++
		if len(h.abortMsgs) < 50 {
			h.abortMsgs["SOLVER-DISAGREEMENT on "+label+": "+e.solver.name+" unsat, "+other+" sat"]++
		}
	}
}

func (e *Exec) doCover(label string) {
	h := e.h
	h.mu.Lock()
	h.coverHits[label]++
	_, have := h.covers[label]
	h.mu.Unlock()
	if have || e.replaying() {
		return
	}
	var sc *Scenario
	if e.model != nil {
		sc = e.scenarioFromModel("witness", label, e.model)
	} else {
		r := e.checkWith(tTrue, h.assertTimeoutMs)
		if r == "sat" {
			sc = e.currentScenario("witness", label)
		}
		e.popModel()
	}
	if sc != nil {
		h.mu.Lock()
		if _, ok := h.covers[label]; !ok {
			h.covers[label] = sc
		}
		h.mu.Unlock()
	}
}

// ---------- exploration ----------

func (h *HarnessRun) runAll(workers int) {
	h.cond = sync.NewCond(&h.mu)
	h.queue = []workItem{{}}
	h.start = time.Now()
	var wg sync.WaitGroup
	stopProgress := make(chan struct{})
	go func() {
		tk := time.NewTicker(30 * time.Second)
		defer tk.Stop()
		for {
			select {
			case <-stopProgress:
				return
			case <-tk.C:
				h.mu.Lock()
				fmt.Fprintf(os.Stderr, "  [progress %s] paths=%d completed=%d queue=%d active=%d elapsed=%.0fs\n", h.name, h.paths, h.completed, len(h.queue), h.active, time.Since(h.start).Seconds())
				h.mu.Unlock()
			}
		}
	}()
	defer close(stopProgress)
	for w := 0; w < workers; w++ {
		wg.Add(1)
		go func(w int) {
			defer wg.Done()
			var s *Solver
			defer func() {
				if s != nil {
					s.Close()
				}
			}()
			for {
				h.mu.Lock()
				for len(h.queue) == 0 && h.active > 0 && !h.stopped {
					h.cond.Wait()
				}
				if len(h.queue) == 0 || h.stopped {
					h.mu.Unlock()
					h.cond.Broadcast()
					return
				}
				item := h.queue[len(h.queue)-1]
				h.queue = h.queue[:len(h.queue)-1]
				h.active++
				h.paths++
				if h.maxPaths > 0 && h.paths > h.maxPaths {
					h.pathLimitHit = true
					h.stopped = true
				}
				h.mu.Unlock()
				if s == nil || s.dead {
					if s != nil {
						s.Close()
					}
					var err error
					s, err = startSolver(h.prog.solverName)
					if err != nil {
						fmt.Fprintln(os.Stderr, "cannot start solver:", err)
						os.Exit(2)
					}
				}
				alts := h.runPath(item, s)
				h.mu.Lock()
				h.queue = append(h.queue, alts...)
				h.active--
				h.mu.Unlock()
				h.cond.Broadcast()
			}
		}(w)
	}
	wg.Wait()
}

func (h *HarnessRun) runPath(item workItem, s *Solver) (alts []workItem) {
	e := &Exec{prog: h.prog, h: h, tc: newTermCtx(), solver: s, decisions: item.decisions,
		known: map[*Term]bool{}, globals: map[*ssa.Global]Ptr{}, globalOverride: map[string]Value{},
		maxSteps: h.maxSteps, permuteMaps: h.permuteMaps, overflowOn: h.overflowOn,
		enteredLocal: map[*ssa.Function]int{}, intrLocal: map[string]int{}}
	e.env = newEnvState()
	if item.model != nil {
		e.model = newModel(item.model)
	} else if len(item.decisions) == 0 {
		e.model = newModel(map[string]string{})
	}
	e.trace = h.prog.trace
	s.Push()
	outcome := "completed"
	msg := ""
	func() {
		defer func() {
			if r := recover(); r != nil {
				switch x := r.(type) {
				case abortRun:
					outcome, msg = x.kind, x.msg
				case *goPanic:
					outcome = "panic"
					msg = fmt.Sprintf("%s at %s", describe(x.val), x.where)
					e.unhandledPanic(x)
				default:
					panic(r)
				}
			}
		}()
		e.callSSA(h.fn, nil, nil, nil)
	}()
	e.modelOpen = false
	if !s.dead {
		for s.depth > 0 {
			s.Pop()
		}
	}
	h.mu.Lock()
	defer h.mu.Unlock()
	h.branchTotal += e.branches
	h.modelHits += e.modelHits
	h.searchHits += e.searchHits
	for f, n := range e.enteredLocal {
		h.entered[funcKey(f)+"@"+h.prog.funcPos(f)] += n
	}
	for k, n := range e.intrLocal {
		h.intrinsics[k] += n
	}
	for k, n := range e.mapRangeLocal {
		if n > h.mapRanges[k] {
			h.mapRanges[k] = n
		}
	}
	switch outcome {
	case "completed", "done":
		h.completed++
		if len(h.samplePicks) < 5 {
			m := map[string]int{}
			for _, p := range e.picks {
				m[p.Name] = p.Val
			}
			h.samplePicks = append(h.samplePicks, m)
		}
		var keys []string
		for _, p := range e.picks {
			if !strings.HasPrefix(p.Name, "maporder@") {
				keys = append(keys, fmt.Sprintf("%s=%d", p.Name, p.Val))
			}
		}
		h.shapes[strings.Join(keys, ",")]++
	case "infeasible":
		h.infeasible++
	case "panic":
		h.panicked++
	default:
		h.aborted[outcome]++
		if len(h.abortMsgs) < 50 {
			h.abortMsgs[outcome+": "+msg]++
		}
	}
	return e.alts
}

// unhandledPanic: a feasible path on which the program panics outside nd.Try is
// a failed implicit assertion "no-panic".
func (e *Exec) unhandledPanic(gp *goPanic) {
	h := e.h
	label := "no-panic"
	if !h.labelWanted(label) {
		return
	}
	if e.replaying() {
		return
	}
	// exclude known findings
	var knownOr []*Term
	for _, k := range e.knownConds {
		if h.knownActive[k.id] {
			knownOr = append(knownOr, k.cond)
		}
	}
	q := tTrue
	if len(knownOr) > 0 {
		q = e.tc.Not(e.tc.Or(knownOr...))
	}
	func() {
		defer func() {
			if r := recover(); r != nil {
				if _, ok := r.(abortRun); !ok {
					panic(r)
				}
			}
		}()
		r := e.checkWith(q, h.assertTimeoutMs)
		var sc *Scenario
		if r == "sat" {
			sc = e.currentScenario("violation", label)
			sc.Where = fmt.Sprintf("%s at %s", describe(gp.val), gp.where)
		}
		e.popModel()
		if r == "unknown" {
			// paths entered through an undecided feasibility check are usually infeasible: a fresh run of the
			// primary solver, then the division lemmas, then the other solvers (only "unsat" is used from them)
			if e.freshPrimary(q) == "unsat" {
				r = "unsat"
			}
		}
		if r == "unknown" {
			if ls := e.tc.divLemmas(append([]*Term{q}, e.pc...)); len(ls) > 0 {
				e.flush()
				e.solver.Push()
				for _, l := range ls {
					e.flush()
					e.solver.send("(assert " + l.ref + ")")
				}
				if e.checkWith(q, h.assertTimeoutMs) == "unsat" {
					r = "unsat"
				}
				e.popModel()
				e.solver.Pop()
			}
		}
		if r == "unknown" {
			r = e.portfolio(q)
		}
		var hits []*Scenario
		for _, k := range e.knownConds {
			if !h.knownActive[k.id] {
				continue
			}
			rk := e.checkWith(k.cond, h.assertTimeoutMs)
			if rk == "sat" {
				s2 := e.currentScenario("known-finding", label)
				s2.KnownID = k.id
				hits = append(hits, s2)
			}
			e.popModel()
		}
		h.mu.Lock()
		s := h.labels[label]
		if s == nil {
			s = &labelStat{}
			h.labels[label] = s
		}
		s.checked++
		switch r {
		case "sat":
			s.violated++
			if len(h.violations) < 200 {
				h.violations = append(h.violations, sc)
			}
		case "unsat":
			s.discharged++
		default:
			s.inconclusive++
			h.abortMsgs[fmt.Sprintf("undecided panic path: %s at %s", describe(gp.val), gp.where)]++
		}
		for _, sc := range hits {
			if _, ok := h.knownHits[sc.KnownID]; !ok {
				h.knownHits[sc.KnownID] = sc
			}
		}
		h.mu.Unlock()
	}()
}

func sortedKeys[V any](m map[string]V) []string {
	var ks []string
	for k := range m {
		ks = append(ks, k)
	}
	sort.Strings(ks)
	return ks
}
