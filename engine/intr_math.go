package main

// Exact integer semantics of cosmossdk.io/math v1.3.0 (Int, LegacyDec) and of
// the ghost integer type nd.Z. S = 10^18.

import (
	"fmt"
	"math/big"
	"strings"

	"golang.org/x/tools/go/ssa"
)

type intrinsicFn func(e *Exec, fn *ssa.Function, args []Value) Value

var intrinsics = map[string]intrinsicFn{}

var bigS = new(big.Int).Exp(big.NewInt(10), big.NewInt(18), nil)
var tS = mkInt(bigS)
var tS2 = mkInt(new(big.Int).Mul(bigS, bigS))
var tHalfS = mkInt(new(big.Int).Div(bigS, big.NewInt(2)))

const (
	intMaxBits = 256
	decMaxBits = 315
)

func (e *Exec) big(v Value, what string) *BigVal {
	b, ok := v.(*BigVal)
	if !ok {
		panic(abortRun{kind: "error", msg: fmt.Sprintf("%s: expected big value, got %s", what, describe(v))})
	}
	if b.isNil {
		panic(&goPanic{val: "nil pointer dereference (uninitialised math.Int/LegacyDec in " + what + ")"})
	}
	return b
}

func mkI(t *Term) *BigVal { return &BigVal{t: t, kind: 'i'} }
func mkD(t *Term) *BigVal { return &BigVal{t: t, kind: 'd'} }
func mkZ(t *Term) *BigVal { return &BigVal{t: t, kind: 'z'} }

// guard panics (as the library does) when |t| needs more than maxBits bits.
func (e *Exec) guard(t *Term, maxBits int, what string) {
	if t.bits > 0 && t.bits <= maxBits {
		return
	}
	if t.IsConst() {
		if t.val.BitLen() > maxBits {
			panic(&goPanic{val: what + ": Int overflow"})
		}
		return
	}
	if !e.overflowOn {
		e.h.noteAssumption("no-overflow")
		return
	}
	lim := mkInt(pow2(maxBits))
	over := e.tc.Or(e.tc.Le(lim, t), e.tc.Le(t, e.tc.Neg(lim)))
	if e.branch(over) {
		panic(&goPanic{val: what + ": Int overflow"})
	}
}

// bankers rounding of x / S (x any sign), as chopPrecisionAndRound.
func (e *Exec) chopRound(x *Term) *Term {
	tc := e.tc
	if x.IsConst() {
		neg := x.val.Sign() < 0
		a := new(big.Int).Abs(x.val)
		q, r := new(big.Int).QuoRem(a, bigS, new(big.Int))
		c := r.Cmp(tHalfS.val)
		if c > 0 || (c == 0 && q.Bit(0) == 1) {
			q.Add(q, big.NewInt(1))
		}
		if neg {
			q.Neg(q)
		}
		return mkInt(q)
	}
	ax := tc.Abs(x)
	q := tc.floorDivPos(ax, tS)
	r := tc.modPos(ax, tS)
	up := tc.Or(tc.Lt(tHalfS, r), tc.And(tc.Eq(r, tHalfS), tc.Eq(tc.modPos(q, mkInt64(2)), tOne)))
	res := tc.Ite(up, tc.Add(q, tOne), q)
	res.nonneg = true
	if ax.bits > 0 {
		res.bits = maxi(ax.bits-59, 1) + 1
	}
	if x.nonneg {
		return res
	}
	out := tc.Ite(tc.Le(tZero, x), res, tc.Neg(res))
	out.bits = res.bits
	return out
}

func (e *Exec) decString(b *BigVal) Value {
	if b.isNil {
		return "<nil>"
	}
	if b.t.IsConst() {
		return decConstString(b.t.val)
	}
	return &SymStr{kind: "dec", t: b.t}
}

func decConstString(v *big.Int) string {
	neg := v.Sign() < 0
	a := new(big.Int).Abs(v)
	q, r := new(big.Int).QuoRem(a, bigS, new(big.Int))
	s := fmt.Sprintf("%s.%018s", q.String(), r.String())
	if neg {
		s = "-" + s
	}
	return s
}

func parseDecConst(s string) (*big.Int, bool) {
	if s == "" {
		return nil, false
	}
	neg := false
	if s[0] == '-' {
		neg = true
		s = s[1:]
	}
	if s == "" {
		return nil, false
	}
	parts := strings.Split(s, ".")
	if len(parts) > 2 {
		return nil, false
	}
	intPart := parts[0]
	frac := ""
	if len(parts) == 2 {
		frac = parts[1]
		if frac == "" {
			return nil, false
		}
	}
	if len(frac) > 18 {
		return nil, false
	}
	for len(frac) < 18 {
		frac += "0"
	}
	v, ok := new(big.Int).SetString(intPart+frac, 10)
	if !ok {
		return nil, false
	}
	if neg {
		v.Neg(v)
	}
	return v, true
}

func reg(name string, f intrinsicFn) { intrinsics[name] = f }

func init() {
	const M = "cosmossdk.io/math."
	const I = "(cosmossdk.io/math.Int)."
	const D = "(cosmossdk.io/math.LegacyDec)."

	// ---- Int constructors ----
	reg(M+"NewInt", func(e *Exec, _ *ssa.Function, a []Value) Value { return mkI(a[0].(*Term)) })
	reg(M+"NewIntFromUint64", func(e *Exec, _ *ssa.Function, a []Value) Value { return mkI(a[0].(*Term)) })
	reg(M+"ZeroInt", func(e *Exec, _ *ssa.Function, a []Value) Value { return mkI(tZero) })
	reg(M+"OneInt", func(e *Exec, _ *ssa.Function, a []Value) Value { return mkI(tOne) })
	reg(M+"NewIntFromString", func(e *Exec, _ *ssa.Function, a []Value) Value {
		s, ok := a[0].(string)
		if !ok {
			panic(abortRun{kind: "unsupported", msg: "NewIntFromString of symbolic string"})
		}
		v, ok2 := new(big.Int).SetString(s, 10)
		if !ok2 || v.BitLen() > 256 {
			return Tuple{&BigVal{isNil: true, kind: 'i', t: tZero}, tFalse}
		}
		return Tuple{mkI(mkInt(v)), tTrue}
	})
	reg(M+"MinInt", func(e *Exec, _ *ssa.Function, a []Value) Value {
		x, y := e.big(a[0], "MinInt"), e.big(a[1], "MinInt")
		return mkI(e.tc.Ite(e.tc.Lt(y.t, x.t), y.t, x.t))
	})
	reg(M+"MaxInt", func(e *Exec, _ *ssa.Function, a []Value) Value {
		x, y := e.big(a[0], "MaxInt"), e.big(a[1], "MaxInt")
		return mkI(e.tc.Ite(e.tc.Lt(x.t, y.t), y.t, x.t))
	})

	// ---- Int methods ----
	reg(I+"IsNil", func(e *Exec, _ *ssa.Function, a []Value) Value { return mkBool(a[0].(*BigVal).isNil) })
	bin := func(name string, f func(e *Exec, x, y *Term) *Term) {
		reg(I+name, func(e *Exec, _ *ssa.Function, a []Value) Value {
			x, y := e.big(a[0], "Int."+name), e.big(a[1], "Int."+name)
			r := f(e, x.t, y.t)
			e.guard(r, intMaxBits, "Int."+name)
			return mkI(r)
		})
	}
	bin("Add", func(e *Exec, x, y *Term) *Term { return e.tc.Add(x, y) })
	bin("Sub", func(e *Exec, x, y *Term) *Term { return e.tc.Sub(x, y) })
	bin("Mul", func(e *Exec, x, y *Term) *Term { return e.tc.Mul(x, y) })
	binRaw := func(name, base string) {
		reg(I+name, func(e *Exec, fn *ssa.Function, a []Value) Value {
			return intrinsics[I+base](e, fn, []Value{a[0], mkI(a[1].(*Term))})
		})
	}
	binRaw("AddRaw", "Add")
	binRaw("SubRaw", "Sub")
	binRaw("MulRaw", "Mul")
	binRaw("QuoRaw", "Quo")
	reg(I+"Quo", func(e *Exec, _ *ssa.Function, a []Value) Value {
		x, y := e.big(a[0], "Int.Quo"), e.big(a[1], "Int.Quo")
		if e.branch(e.tc.Eq(y.t, tZero)) {
			panic(&goPanic{val: "Division by zero"})
		}
		return mkI(e.tc.TruncQuo(x.t, y.t))
	})
	reg(I+"Mod", func(e *Exec, _ *ssa.Function, a []Value) Value {
		x, y := e.big(a[0], "Int.Mod"), e.big(a[1], "Int.Mod")
		if e.branch(e.tc.Eq(y.t, tZero)) {
			panic(&goPanic{val: "Division by zero"})
		}
		// big.Int.Mod is Euclidean
		ay := e.tc.Abs(y.t)
		return mkI(e.tc.modPos(x.t, ay))
	})
	cmp := func(prefix string, kindName string) {
		reg(prefix+"Equal", func(e *Exec, _ *ssa.Function, a []Value) Value {
			return e.tc.Eq(e.big(a[0], kindName+".Equal").t, e.big(a[1], kindName+".Equal").t)
		})
		reg(prefix+"GT", func(e *Exec, _ *ssa.Function, a []Value) Value {
			return e.tc.Lt(e.big(a[1], kindName+".GT").t, e.big(a[0], kindName+".GT").t)
		})
		reg(prefix+"GTE", func(e *Exec, _ *ssa.Function, a []Value) Value {
			return e.tc.Le(e.big(a[1], kindName+".GTE").t, e.big(a[0], kindName+".GTE").t)
		})
		reg(prefix+"LT", func(e *Exec, _ *ssa.Function, a []Value) Value {
			return e.tc.Lt(e.big(a[0], kindName+".LT").t, e.big(a[1], kindName+".LT").t)
		})
		reg(prefix+"LTE", func(e *Exec, _ *ssa.Function, a []Value) Value {
			return e.tc.Le(e.big(a[0], kindName+".LTE").t, e.big(a[1], kindName+".LTE").t)
		})
		reg(prefix+"IsZero", func(e *Exec, _ *ssa.Function, a []Value) Value {
			return e.tc.Eq(e.big(a[0], kindName+".IsZero").t, tZero)
		})
		reg(prefix+"IsPositive", func(e *Exec, _ *ssa.Function, a []Value) Value {
			return e.tc.Lt(tZero, e.big(a[0], kindName+".IsPositive").t)
		})
		reg(prefix+"IsNegative", func(e *Exec, _ *ssa.Function, a []Value) Value {
			return e.tc.Lt(e.big(a[0], kindName+".IsNegative").t, tZero)
		})
	}
	cmp(I, "Int")
	cmp(D, "Dec")
	reg(I+"Neg", func(e *Exec, _ *ssa.Function, a []Value) Value { return mkI(e.tc.Neg(e.big(a[0], "Int.Neg").t)) })
	reg(I+"Abs", func(e *Exec, _ *ssa.Function, a []Value) Value { return mkI(e.tc.Abs(e.big(a[0], "Int.Abs").t)) })
	reg(I+"Sign", func(e *Exec, _ *ssa.Function, a []Value) Value {
		x := e.big(a[0], "Int.Sign").t
		return e.tc.Ite(e.tc.Lt(x, tZero), mkInt64(-1), e.tc.Ite(e.tc.Eq(x, tZero), tZero, tOne))
	})
	reg(I+"String", func(e *Exec, _ *ssa.Function, a []Value) Value {
		b := a[0].(*BigVal)
		if b.isNil {
			return "<nil>"
		}
		if b.t.IsConst() {
			return b.t.val.String()
		}
		return &SymStr{kind: "int", t: b.t}
	})
	reg(I+"Int64", func(e *Exec, _ *ssa.Function, a []Value) Value {
		x := e.big(a[0], "Int.Int64").t
		lim := mkInt(pow2(63))
		if e.branch(e.tc.Or(e.tc.Le(lim, x), e.tc.Lt(x, e.tc.Neg(lim)))) {
			panic(&goPanic{val: "Int64() out of bound"})
		}
		return x
	})
	reg(I+"Uint64", func(e *Exec, _ *ssa.Function, a []Value) Value {
		x := e.big(a[0], "Int.Uint64").t
		if e.branch(e.tc.Or(e.tc.Le(mkInt(pow2(64)), x), e.tc.Lt(x, tZero))) {
			panic(&goPanic{val: "Uint64() out of bounds"})
		}
		return x
	})
	reg(I+"IsInt64", func(e *Exec, _ *ssa.Function, a []Value) Value {
		x := e.big(a[0], "Int.IsInt64").t
		lim := mkInt(pow2(63))
		return e.tc.And(e.tc.Lt(x, lim), e.tc.Le(e.tc.Neg(lim), x))
	})
	reg(I+"ToLegacyDec", func(e *Exec, _ *ssa.Function, a []Value) Value {
		return mkD(e.tc.Mul(e.big(a[0], "Int.ToLegacyDec").t, tS))
	})

	// ---- Dec constructors ----
	reg(M+"LegacyNewDec", func(e *Exec, _ *ssa.Function, a []Value) Value { return mkD(e.tc.Mul(a[0].(*Term), tS)) })
	reg(M+"LegacyNewDecWithPrec", func(e *Exec, _ *ssa.Function, a []Value) Value {
		p := e.concreteInt(a[1], "prec")
		if p < 0 || p > 18 {
			panic(&goPanic{val: "too much precision"})
		}
		mul := new(big.Int).Exp(big.NewInt(10), big.NewInt(int64(18-p)), nil)
		return mkD(e.tc.Mul(a[0].(*Term), mkInt(mul)))
	})
	reg(M+"LegacyNewDecFromInt", func(e *Exec, _ *ssa.Function, a []Value) Value {
		return mkD(e.tc.Mul(e.big(a[0], "LegacyNewDecFromInt").t, tS))
	})
	reg(M+"LegacyZeroDec", func(e *Exec, _ *ssa.Function, a []Value) Value { return mkD(tZero) })
	reg(M+"LegacyOneDec", func(e *Exec, _ *ssa.Function, a []Value) Value { return mkD(tS) })
	reg(M+"LegacySmallestDec", func(e *Exec, _ *ssa.Function, a []Value) Value { return mkD(tOne) })
	reg(M+"LegacyMustNewDecFromStr", func(e *Exec, _ *ssa.Function, a []Value) Value {
		switch s := a[0].(type) {
		case string:
			v, ok := parseDecConst(s)
			if !ok {
				panic(&goPanic{val: "LegacyMustNewDecFromStr: invalid decimal " + s})
			}
			return mkD(mkInt(v))
		case *SymStr:
			if s.kind == "dec" {
				return mkD(s.t)
			}
		}
		panic(abortRun{kind: "unsupported", msg: "LegacyMustNewDecFromStr of " + describe(a[0])})
	})
	reg(M+"LegacyNewDecFromStr", func(e *Exec, _ *ssa.Function, a []Value) Value {
		switch s := a[0].(type) {
		case string:
			v, ok := parseDecConst(s)
			if !ok {
				return Tuple{&BigVal{isNil: true, kind: 'd', t: tZero}, Iface{t: errValType, v: &ErrVal{root: "math.ErrLegacyInvalidDecimalStr"}}}
			}
			return Tuple{mkD(mkInt(v)), Iface{}}
		case *SymStr:
			if s.kind == "dec" {
				return Tuple{mkD(s.t), Iface{}}
			}
		}
		panic(abortRun{kind: "unsupported", msg: "LegacyNewDecFromStr of " + describe(a[0])})
	})

	// ---- Dec methods ----
	reg(D+"IsNil", func(e *Exec, _ *ssa.Function, a []Value) Value { return mkBool(a[0].(*BigVal).isNil) })
	dbin := func(name string, f func(e *Exec, x, y *Term) *Term) {
		reg(D+name, func(e *Exec, _ *ssa.Function, a []Value) Value {
			x, y := e.big(a[0], "Dec."+name), e.big(a[1], "Dec."+name)
			r := f(e, x.t, y.t)
			e.guard(r, decMaxBits, "Dec."+name)
			return mkD(r)
		})
	}
	dbin("Add", func(e *Exec, x, y *Term) *Term { return e.tc.Add(x, y) })
	dbin("Sub", func(e *Exec, x, y *Term) *Term { return e.tc.Sub(x, y) })
	dbin("Mul", func(e *Exec, x, y *Term) *Term {
		// exact when one factor is a whole number
		if q, ok := wholeFactor(e, x); ok {
			return e.tc.Mul(q, y)
		}
		if q, ok := wholeFactor(e, y); ok {
			return e.tc.Mul(x, q)
		}
		return e.chopRound(e.tc.Mul(x, y))
	})
	dbin("MulTruncate", func(e *Exec, x, y *Term) *Term {
		if q, ok := wholeFactor(e, x); ok {
			return e.tc.Mul(q, y)
		}
		if q, ok := wholeFactor(e, y); ok {
			return e.tc.Mul(x, q)
		}
		return e.tc.TruncQuo(e.tc.Mul(x, y), tS)
	})
	dbin("MulInt", func(e *Exec, x, y *Term) *Term { return e.tc.Mul(x, y) })
	reg(D+"MulInt64", func(e *Exec, _ *ssa.Function, a []Value) Value {
		r := e.tc.Mul(e.big(a[0], "Dec.MulInt64").t, a[1].(*Term))
		e.guard(r, decMaxBits, "Dec.MulInt64")
		return mkD(r)
	})
	quo := func(name string, round bool) {
		reg(D+name, func(e *Exec, _ *ssa.Function, a []Value) Value {
			x, y := e.big(a[0], "Dec."+name), e.big(a[1], "Dec."+name)
			if e.branch(e.tc.Eq(y.t, tZero)) {
				panic(&goPanic{val: "division by zero"})
			}
			n := e.tc.TruncQuo(e.tc.Mul(x.t, tS2), y.t)
			var r *Term
			if round {
				r = e.chopRound(n)
			} else {
				r = e.tc.TruncQuo(n, tS)
			}
			e.guard(r, decMaxBits, "Dec."+name)
			return mkD(r)
		})
	}
	quo("Quo", true)
	quo("QuoTruncate", false)
	reg(D+"QuoInt", func(e *Exec, _ *ssa.Function, a []Value) Value {
		x, y := e.big(a[0], "Dec.QuoInt"), e.big(a[1], "Dec.QuoInt")
		if e.branch(e.tc.Eq(y.t, tZero)) {
			panic(&goPanic{val: "division by zero"})
		}
		return mkD(e.tc.TruncQuo(x.t, y.t))
	})
	reg(D+"QuoInt64", func(e *Exec, _ *ssa.Function, a []Value) Value {
		x := e.big(a[0], "Dec.QuoInt64")
		y := a[1].(*Term)
		if e.branch(e.tc.Eq(y, tZero)) {
			panic(&goPanic{val: "division by zero"})
		}
		return mkD(e.tc.TruncQuo(x.t, y))
	})
	reg(D+"Ceil", func(e *Exec, _ *ssa.Function, a []Value) Value {
		x := e.big(a[0], "Dec.Ceil").t
		tc := e.tc
		if q, ok := wholeFactor(e, x); ok {
			return mkD(tc.Mul(q, tS))
		}
		q := tc.TruncQuo(x, tS)
		r := tc.TruncRem(x, tS)
		up := tc.Lt(tZero, r)
		if !(x.bits > 0 && x.bits < decMaxBits) && e.overflowOn {
			lim := mkInt(pow2(decMaxBits - 1))
			if e.branch(tc.And(up, tc.Or(tc.Le(lim, x), tc.Le(x, tc.Neg(lim))))) {
				panic(&goPanic{val: "Dec.Ceil: Int overflow"})
			}
		}
		res := tc.Mul(tc.Ite(up, tc.Add(q, tOne), q), tS)
		return mkD(res)
	})
	reg(D+"TruncateInt", func(e *Exec, _ *ssa.Function, a []Value) Value {
		x := e.big(a[0], "Dec.TruncateInt").t
		var r *Term
		if q, ok := wholeFactor(e, x); ok {
			r = q
		} else {
			r = e.tc.TruncQuo(x, tS)
		}
		e.guard(r, intMaxBits, "Dec.TruncateInt")
		return mkI(r)
	})
	reg(D+"TruncateDec", func(e *Exec, _ *ssa.Function, a []Value) Value {
		x := e.big(a[0], "Dec.TruncateDec").t
		return mkD(e.tc.Mul(e.tc.TruncQuo(x, tS), tS))
	})
	reg(D+"RoundInt", func(e *Exec, _ *ssa.Function, a []Value) Value {
		r := e.chopRound(e.big(a[0], "Dec.RoundInt").t)
		e.guard(r, intMaxBits, "Dec.RoundInt")
		return mkI(r)
	})
	reg(D+"TruncateInt64", func(e *Exec, _ *ssa.Function, a []Value) Value {
		x := e.tc.TruncQuo(e.big(a[0], "Dec.TruncateInt64").t, tS)
		lim := mkInt(pow2(63))
		if e.branch(e.tc.Or(e.tc.Le(lim, x), e.tc.Lt(x, e.tc.Neg(lim)))) {
			panic(&goPanic{val: "Int64() out of bound"})
		}
		return x
	})
	reg(D+"Neg", func(e *Exec, _ *ssa.Function, a []Value) Value { return mkD(e.tc.Neg(e.big(a[0], "Dec.Neg").t)) })
	reg(D+"Abs", func(e *Exec, _ *ssa.Function, a []Value) Value { return mkD(e.tc.Abs(e.big(a[0], "Dec.Abs").t)) })
	reg(D+"IsInteger", func(e *Exec, _ *ssa.Function, a []Value) Value {
		return e.tc.Eq(e.tc.TruncRem(e.big(a[0], "Dec.IsInteger").t, tS), tZero)
	})
	reg(D+"String", func(e *Exec, _ *ssa.Function, a []Value) Value { return e.decString(a[0].(*BigVal)) })
	reg(D+"Clone", func(e *Exec, _ *ssa.Function, a []Value) Value { return mkD(e.big(a[0], "Dec.Clone").t) })
}

// wholeFactor recognises terms of the form q*S (a whole-number decimal) and returns q.
func wholeFactor(e *Exec, x *Term) (*Term, bool) {
	if x.IsConst() {
		q, r := new(big.Int).QuoRem(x.val, bigS, new(big.Int))
		if r.Sign() == 0 {
			return mkInt(q), true
		}
		return nil, false
	}
	if x.op == "*" && len(x.args) == 2 {
		if x.args[1] == tS || (x.args[1].IsConst() && x.args[1].val.Cmp(bigS) == 0) {
			return x.args[0], true
		}
		if x.args[0].IsConst() && x.args[0].val.Cmp(bigS) == 0 {
			return x.args[1], true
		}
	}
	return nil, false
}
