package main

import (
	"fmt"
	"go/types"
	"math/big"
	"strings"

	"golang.org/x/tools/go/ssa"
)

// Value representations:
//   *Term                 bool and every integer kind
//   string                concrete Go string
//   *SymStr               structured symbolic string (injective in its term)
//   *Value (Ptr)          pointer to a variable / field / element
//   Struct, Array         aggregates (copied on load/store)
//   Slice                 reference to backing []Value
//   *MapVal               map
//   Iface                 interface value (t == nil => nil interface)
//   Tuple                 multi-value
//   *ssa.Function, *Closure, *ssa.Builtin, *BoundIntrinsic   callables
//   *BigVal               cosmossdk.io/math.Int / LegacyDec / nd.Z (immutable)
//   *TimeVal              time.Time
//   *ErrVal               error produced by external constructors / sentinels
//   *Opaque               handle for external objects we do not model
//   *CollVal, *PairVal, *RangeVal, *CtxVal   environment models
//   nil                   nil pointer / nil func / untyped nil
type Value interface{}

type Ptr = *Value

type Struct []Value
type Array []Value

type Slice struct {
	data []Value // len(data) is the slice length; cap(data) its capacity
	null bool
}

type Tuple []Value

type Iface struct {
	t types.Type
	v Value
}

type Closure struct {
	fn  *ssa.Function
	env []Value
}

type MapVal struct {
	keys []Value
	vals []Value
	kt   types.Type
	vt   types.Type
	id   int
}

type SymStr struct {
	kind string // "dec", "int", "uint", "time", "coin"...
	t    *Term
	rest string // extra concrete suffix (e.g. denom for coin strings)
}

func (s *SymStr) String() string { return fmt.Sprintf("str(%s,%s,%s)", s.kind, s.t, s.rest) }

type BigVal struct {
	t     *Term
	isNil bool
	kind  byte // 'i' Int, 'd' LegacyDec, 'z' ghost
}

type TimeVal struct {
	ns *Term // nanoseconds since Unix epoch (unbounded integer)
}

type ErrVal struct {
	root  string   // sentinel identity (name of the registered error / constructor site)
	chain []string // wrap messages, outermost last
	code  string
	wraps *ErrVal
}

func (e *ErrVal) Root() string {
	x := e
	for x.wraps != nil {
		x = x.wraps
	}
	return x.root
}

func (e *ErrVal) String() string {
	return "err<" + e.Root() + ">"
}

type Opaque struct {
	name string
	data interface{}
}

type BoundIntrinsic struct {
	name string
	recv Value
}

// ----- zero values -----

func namedPath(t types.Type) string {
	if a, ok := t.(*types.Alias); ok {
		return namedPath(types.Unalias(a))
	}
	n, ok := t.(*types.Named)
	if !ok {
		return ""
	}
	o := n.Obj()
	if o.Pkg() == nil {
		return o.Name()
	}
	return o.Pkg().Path() + "." + o.Name()
}

const (
	pkgMath = "cosmossdk.io/math"
	pkgColl = "cosmossdk.io/collections"
	pkgND   = "verif/harness/nd"
)

var timeZeroNs = new(big.Int).Mul(big.NewInt(-62135596800), big.NewInt(1000000000))

func zeroValue(t types.Type) Value {
	switch namedPath(t) {
	case pkgMath + ".Int":
		return &BigVal{isNil: true, kind: 'i', t: tZero}
	case pkgMath + ".LegacyDec":
		return &BigVal{isNil: true, kind: 'd', t: tZero}
	case pkgND + ".Z":
		return &BigVal{kind: 'z', t: tZero}
	case "time.Time":
		return &TimeVal{ns: mkInt(timeZeroNs)}
	}
	if np := namedPath(t); strings.HasPrefix(np, pkgColl+".") {
		if _, isStruct := t.Underlying().(*types.Struct); isStruct {
			return &Opaque{name: "zero:" + np}
		}
	}
	if np := namedPath(t); np == "github.com/cosmos/cosmos-sdk/types.Context" {
		return &Opaque{name: "zero:sdk.Context"}
	}
	switch u := t.Underlying().(type) {
	case *types.Basic:
		switch {
		case u.Info()&types.IsBoolean != 0:
			return tFalse
		case u.Info()&types.IsInteger != 0:
			return tZero
		case u.Info()&types.IsString != 0:
			return ""
		case u.Kind() == types.UnsafePointer:
			return nil
		case u.Kind() == types.UntypedNil:
			return nil
		case u.Info()&types.IsFloat != 0:
			return &Opaque{name: "float0"}
		}
		panic(abortRun{kind: "unsupported", msg: "zero value of basic type " + t.String()})
	case *types.Struct:
		s := make(Struct, u.NumFields())
		for i := range s {
			s[i] = zeroValue(u.Field(i).Type())
		}
		return s
	case *types.Array:
		n := int(u.Len())
		if n > 4096 {
			panic(abortRun{kind: "unsupported", msg: "large array " + t.String()})
		}
		a := make(Array, n)
		for i := range a {
			a[i] = zeroValue(u.Elem())
		}
		return a
	case *types.Pointer:
		return Ptr(nil)
	case *types.Slice:
		return Slice{null: true}
	case *types.Map:
		return (*MapVal)(nil)
	case *types.Interface:
		return Iface{}
	case *types.Signature:
		return nil
	case *types.Chan:
		return nil
	case *types.Tuple:
		if u.Len() == 0 {
			return nil
		}
		tp := make(Tuple, u.Len())
		for i := range tp {
			tp[i] = zeroValue(u.At(i).Type())
		}
		return tp
	}
	panic(abortRun{kind: "unsupported", msg: "zero value of " + t.String()})
}

// copyVal copies aggregates (value semantics); references are shared.
func copyVal(v Value) Value {
	switch x := v.(type) {
	case Struct:
		n := make(Struct, len(x))
		for i := range x {
			n[i] = copyVal(x[i])
		}
		return n
	case Array:
		n := make(Array, len(x))
		for i := range x {
			n[i] = copyVal(x[i])
		}
		return n
	case Tuple:
		n := make(Tuple, len(x))
		for i := range x {
			n[i] = copyVal(x[i])
		}
		return n
	}
	return v
}

// storeInto writes v into *addr element-wise for aggregates so that existing
// field pointers stay valid.
func storeInto(addr Ptr, v Value) {
	switch rhs := v.(type) {
	case Struct:
		if lhs, ok := (*addr).(Struct); ok && len(lhs) == len(rhs) {
			for i := range lhs {
				storeInto(&lhs[i], rhs[i])
			}
			return
		}
		*addr = copyVal(v)
	case Array:
		if lhs, ok := (*addr).(Array); ok && len(lhs) == len(rhs) {
			for i := range lhs {
				storeInto(&lhs[i], rhs[i])
			}
			return
		}
		*addr = copyVal(v)
	default:
		*addr = v
	}
}

// deepCopy copies a value including everything reachable through pointers,
// slices and maps (used by the store model: the real store serialises).
func deepCopy(v Value, seen map[Ptr]Ptr) Value {
	switch x := v.(type) {
	case Struct:
		n := make(Struct, len(x))
		for i := range x {
			n[i] = deepCopy(x[i], seen)
		}
		return n
	case Array:
		n := make(Array, len(x))
		for i := range x {
			n[i] = deepCopy(x[i], seen)
		}
		return n
	case Tuple:
		n := make(Tuple, len(x))
		for i := range x {
			n[i] = deepCopy(x[i], seen)
		}
		return n
	case Slice:
		if x.null {
			return x
		}
		n := make([]Value, len(x.data))
		for i := range x.data {
			n[i] = deepCopy(x.data[i], seen)
		}
		return Slice{data: n}
	case Ptr:
		if x == nil {
			return x
		}
		if p, ok := seen[x]; ok {
			return p
		}
		np := new(Value)
		seen[x] = np
		*np = deepCopy(*x, seen)
		return np
	case *MapVal:
		if x == nil {
			return x
		}
		n := &MapVal{kt: x.kt, vt: x.vt}
		for i := range x.keys {
			n.keys = append(n.keys, deepCopy(x.keys[i], seen))
			n.vals = append(n.vals, deepCopy(x.vals[i], seen))
		}
		return n
	case Iface:
		return Iface{t: x.t, v: deepCopy(x.v, seen)}
	}
	return v
}

func describe(v Value) string {
	switch x := v.(type) {
	case nil:
		return "nil"
	case *Term:
		return x.String()
	case string:
		return fmt.Sprintf("%q", x)
	case *SymStr:
		return x.String()
	case *BigVal:
		if x.isNil {
			return "big<nil>"
		}
		return "big(" + x.t.String() + ")"
	case *TimeVal:
		return "time(" + x.ns.String() + ")"
	case Struct:
		var parts []string
		for _, f := range x {
			parts = append(parts, describe(f))
		}
		return "{" + strings.Join(parts, ", ") + "}"
	case Array:
		var parts []string
		for _, f := range x {
			parts = append(parts, describe(f))
		}
		return "[" + strings.Join(parts, ", ") + "]"
	case Slice:
		if x.null {
			return "[]nil"
		}
		var parts []string
		for _, f := range x.data {
			parts = append(parts, describe(f))
		}
		return "[]{" + strings.Join(parts, ", ") + "}"
	case Ptr:
		if x == nil {
			return "ptr<nil>"
		}
		return "&" + describe(*x)
	case Iface:
		if x.t == nil {
			return "iface<nil>"
		}
		return "iface(" + describe(x.v) + ")"
	case *ErrVal:
		if x == nil {
			return "err<nil>"
		}
		return x.String()
	case *Opaque:
		return "opaque<" + x.name + ">"
	case *MapVal:
		if x == nil {
			return "map<nil>"
		}
		var parts []string
		for i := range x.keys {
			parts = append(parts, describe(x.keys[i])+":"+describe(x.vals[i]))
		}
		return "map{" + strings.Join(parts, ", ") + "}"
	case Tuple:
		var parts []string
		for _, f := range x {
			parts = append(parts, describe(f))
		}
		return "(" + strings.Join(parts, ", ") + ")"
	case *ssa.Function:
		return "func " + x.String()
	case *Closure:
		return "closure " + x.fn.String()
	}
	return fmt.Sprintf("%T", v)
}
