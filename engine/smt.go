package main

// Term DAG with constant folding and light simplification. Terms are per-run
// (one TermCtx per symbolic path execution); compound terms are named with
// (define-fun tN ...) in the solver so that printed references stay small.

import (
	"fmt"
	"math/big"
	"strings"
)

type Sort int

const (
	SInt Sort = iota
	SBool
)

func (s Sort) String() string {
	if s == SBool {
		return "Bool"
	}
	return "Int"
}

type Term struct {
	op   string // "const", "var", or SMT operator
	sort Sort
	args []*Term
	val  *big.Int // int const
	b    bool     // bool const
	ref  string   // how this term is referenced in SMT text
	// metadata (sound over-approximations)
	bits       int  // if >0: |value| < 2^bits
	nonneg     bool // value >= 0
	pos        bool // value > 0
	posDivisor bool // div term whose divisor is known positive on the path
}

func (t *Term) IsConst() bool { return t.op == "const" }
func (t *Term) String() string {
	if t == nil {
		return "<nil-term>"
	}
	return t.ref
}

var (
	tTrue  = &Term{op: "const", sort: SBool, b: true, ref: "true"}
	tFalse = &Term{op: "const", sort: SBool, b: false, ref: "false"}
)

func mkBool(b bool) *Term {
	if b {
		return tTrue
	}
	return tFalse
}

func mkInt(v *big.Int) *Term {
	t := &Term{op: "const", sort: SInt, val: new(big.Int).Set(v)}
	if v.Sign() < 0 {
		t.ref = "(- " + new(big.Int).Neg(v).String() + ")"
	} else {
		t.ref = v.String()
		t.nonneg = true
		t.pos = v.Sign() > 0
	}
	t.bits = v.BitLen()
	if t.bits == 0 {
		t.bits = 1
	}
	return t
}

func mkInt64(v int64) *Term { return mkInt(big.NewInt(v)) }

var (
	tZero = mkInt64(0)
	tOne  = mkInt64(1)
)

type TermCtx struct {
	intern  map[string]*Term
	nextID  int
	pending []string // define-fun / declare-const lines not yet sent
	vars    []*Term  // declared variables in order
	varByNm map[string]*Term
	log     []string // every definition/assert sent (for portfolio scripts)
	newVars []*Term
	varKind map[string]byte // 'd' decimal, 't' instant, 'i' integer (for counterexample search)
}

func newTermCtx() *TermCtx {
	return &TermCtx{intern: map[string]*Term{}, varByNm: map[string]*Term{}, varKind: map[string]byte{}}
}

func (c *TermCtx) Var(name string, sort Sort) *Term {
	if t, ok := c.varByNm[name]; ok {
		if t.sort != sort {
			panic(abortRun{kind: "error", msg: "variable redeclared with different sort: " + name})
		}
		return t
	}
	t := &Term{op: "var", sort: sort, ref: smtName(name)}
	c.varByNm[name] = t
	c.vars = append(c.vars, t)
	c.newVars = append(c.newVars, t)
	c.pending = append(c.pending, fmt.Sprintf("(declare-const %s %s)", t.ref, sort))
	return t
}

func smtName(n string) string {
	ok := true
	for _, r := range n {
		if !(r >= 'a' && r <= 'z' || r >= 'A' && r <= 'Z' || r >= '0' && r <= '9' || r == '_' || r == '.' || r == '-' || r == '/' || r == '#' || r == '[' || r == ']' || r == ':') {
			ok = false
		}
	}
	if ok {
		return "|" + n + "|"
	}
	return "|" + strings.NewReplacer("|", "_", "\\", "_").Replace(n) + "|"
}

func (c *TermCtx) mk(op string, sort Sort, args ...*Term) *Term {
	var sb strings.Builder
	sb.WriteString("(")
	sb.WriteString(op)
	for _, a := range args {
		sb.WriteByte(' ')
		sb.WriteString(a.ref)
	}
	sb.WriteString(")")
	key := sb.String()
	if t, ok := c.intern[key]; ok {
		return t
	}
	t := &Term{op: op, sort: sort, args: args}
	// Small terms are inlined, larger ones named.
	if len(key) <= 40 {
		t.ref = key
	} else {
		c.nextID++
		t.ref = fmt.Sprintf("t%d", c.nextID)
		c.pending = append(c.pending, fmt.Sprintf("(define-fun %s () %s %s)", t.ref, sort, key))
	}
	c.intern[key] = t
	return t
}

// ---------- integer constructors ----------

func maxi(a, b int) int {
	if a > b {
		return a
	}
	return b
}

func (c *TermCtx) Add(a, b *Term) *Term {
	if a.IsConst() && b.IsConst() {
		return mkInt(new(big.Int).Add(a.val, b.val))
	}
	if a.IsConst() && a.val.Sign() == 0 {
		return b
	}
	if b.IsConst() && b.val.Sign() == 0 {
		return a
	}
	t := c.mk("+", SInt, a, b)
	if a.bits > 0 && b.bits > 0 {
		t.bits = maxi(a.bits, b.bits) + 1
	}
	t.nonneg = a.nonneg && b.nonneg
	t.pos = t.nonneg && (a.pos || b.pos)
	return t
}

func (c *TermCtx) Sub(a, b *Term) *Term {
	if a.IsConst() && b.IsConst() {
		return mkInt(new(big.Int).Sub(a.val, b.val))
	}
	if b.IsConst() && b.val.Sign() == 0 {
		return a
	}
	if a == b {
		return tZero
	}
	t := c.mk("-", SInt, a, b)
	if a.bits > 0 && b.bits > 0 {
		t.bits = maxi(a.bits, b.bits) + 1
		if a.nonneg && b.nonneg {
			t.bits = maxi(a.bits, b.bits)
		}
	}
	return t
}

func (c *TermCtx) Neg(a *Term) *Term {
	if a.IsConst() {
		return mkInt(new(big.Int).Neg(a.val))
	}
	t := c.mk("-", SInt, a)
	t.bits = a.bits
	return t
}

func (c *TermCtx) Mul(a, b *Term) *Term {
	if a.IsConst() && b.IsConst() {
		return mkInt(new(big.Int).Mul(a.val, b.val))
	}
	if a.IsConst() {
		a, b = b, a
	}
	if b.IsConst() {
		if b.val.Sign() == 0 {
			return tZero
		}
		if b.val.Cmp(big.NewInt(1)) == 0 {
			return a
		}
	}
	// fold nested constant factors: (x*c1)*c2 = x*(c1*c2)
	if b.IsConst() && a.op == "*" && len(a.args) == 2 && a.args[1].IsConst() {
		return c.Mul(a.args[0], mkInt(new(big.Int).Mul(a.args[1].val, b.val)))
	}
	t := c.mk("*", SInt, a, b)
	if a.bits > 0 && b.bits > 0 {
		t.bits = a.bits + b.bits
	}
	t.nonneg = a.nonneg && b.nonneg
	t.pos = a.pos && b.pos
	return t
}

// FloorDiv is SMT-LIB div restricted to a positive divisor (floor division).
// Callers must guarantee b > 0 on the path.
func (c *TermCtx) floorDivPos(a, b *Term) *Term {
	if a.IsConst() && b.IsConst() && b.val.Sign() > 0 {
		q, m := new(big.Int).DivMod(a.val, b.val, new(big.Int))
		_ = m
		return mkInt(q)
	}
	if b.IsConst() && b.val.Cmp(big.NewInt(1)) == 0 {
		return a
	}
	// floor(floor(x/p)/k) = floor(x/(p*k)) for p, k > 0; when x = y*(k*m) this is floor(y*m/p).
	// (Sound for every integer x; p > 0 is guaranteed by the caller of the inner division.)
	if b.IsConst() && b.val.Sign() > 0 && a.op == "div" && len(a.args) == 2 {
		x, p := a.args[0], a.args[1]
		if p.pos || (p.IsConst() && p.val.Sign() > 0) {
			if x.op == "*" && len(x.args) == 2 && x.args[1].IsConst() {
				k := x.args[1].val
				if k.Sign() > 0 {
					q, r := new(big.Int).QuoRem(k, b.val, new(big.Int))
					if r.Sign() == 0 {
						return c.floorDivPos(c.Mul(x.args[0], mkInt(q)), p)
					}
				}
			}
			if p.IsConst() {
				return c.floorDivPos(x, mkInt(new(big.Int).Mul(p.val, b.val)))
			}
		}
	}
	t := c.mk("div", SInt, a, b)
	t.bits = a.bits
	t.nonneg = a.nonneg
	if !b.IsConst() {
		t.posDivisor = true // created under the guarantee b > 0 (see divLemmas)
	}
	return t
}

// divLemmas returns the defining inequalities b*q <= a < b*q + b of every
// division by a symbolic positive divisor occurring in t. They are tautologies
// on the path (b > 0 there) and are offered to the solver only as a second
// attempt at a query it could not decide (asserting them up front slows every
// other query down by an order of magnitude).
func (c *TermCtx) divLemmas(ts []*Term) []*Term {
	seen := map[*Term]bool{}
	var out []*Term
	var walk func(t *Term)
	walk = func(t *Term) {
		if seen[t] {
			return
		}
		seen[t] = true
		for _, a := range t.args {
			walk(a)
		}
		if t.op == "div" && t.posDivisor {
			a, b := t.args[0], t.args[1]
			bq := c.mk("*", SInt, b, t)
			out = append(out, c.mk("<=", SBool, bq, a), c.mk("<", SBool, a, c.mk("+", SInt, bq, b)))
		}
	}
	for _, t := range ts {
		walk(t)
	}
	return out
}

func (c *TermCtx) modPos(a, b *Term) *Term {
	if a.IsConst() && b.IsConst() && b.val.Sign() > 0 {
		return mkInt(new(big.Int).Mod(a.val, b.val))
	}
	t := c.mk("mod", SInt, a, b)
	t.bits = b.bits
	t.nonneg = true
	return t
}

// TruncQuo is Go's big.Int.Quo (truncation toward zero). b != 0 must hold.
func (c *TermCtx) TruncQuo(a, b *Term) *Term {
	if a.IsConst() && b.IsConst() && b.val.Sign() != 0 {
		return mkInt(new(big.Int).Quo(a.val, b.val))
	}
	if a.nonneg && b.pos {
		return c.floorDivPos(a, b)
	}
	if b.pos {
		// a of unknown sign
		t := c.Ite(c.Le(tZero, a), c.floorDivPos(a, b), c.Neg(c.floorDivPos(c.Neg(a), b)))
		t.bits = a.bits
		return t
	}
	absA := c.Ite(c.Le(tZero, a), a, c.Neg(a))
	absB := c.Ite(c.Le(tZero, b), b, c.Neg(b))
	q := c.mk("div", SInt, absA, absB)
	sameSign := c.Eq(c.Le(tZero, a), c.Le(tZero, b))
	t := c.Ite(sameSign, q, c.Neg(q))
	t.bits = a.bits
	return t
}

// TruncRem is Go's big.Int.Rem.
func (c *TermCtx) TruncRem(a, b *Term) *Term {
	if a.IsConst() && b.IsConst() && b.val.Sign() != 0 {
		return mkInt(new(big.Int).Rem(a.val, b.val))
	}
	if a.nonneg && b.pos {
		return c.modPos(a, b)
	}
	return c.Sub(a, c.Mul(b, c.TruncQuo(a, b)))
}

func (c *TermCtx) Abs(a *Term) *Term {
	if a.nonneg {
		return a
	}
	if a.IsConst() {
		return mkInt(new(big.Int).Abs(a.val))
	}
	t := c.Ite(c.Le(tZero, a), a, c.Neg(a))
	t.nonneg = true
	t.bits = a.bits
	return t
}

// ---------- comparisons ----------

func (c *TermCtx) Eq(a, b *Term) *Term {
	if a == b {
		return tTrue
	}
	if a.IsConst() && b.IsConst() {
		if a.sort == SBool {
			return mkBool(a.b == b.b)
		}
		return mkBool(a.val.Cmp(b.val) == 0)
	}
	if a.sort == SBool {
		if a.IsConst() {
			a, b = b, a
		}
		if b.IsConst() {
			if b.b {
				return a
			}
			return c.Not(a)
		}
	}
	if a.ref > b.ref {
		a, b = b, a
	}
	return c.mk("=", SBool, a, b)
}

func (c *TermCtx) Lt(a, b *Term) *Term {
	if a == b {
		return tFalse
	}
	if a.IsConst() && b.IsConst() {
		return mkBool(a.val.Cmp(b.val) < 0)
	}
	if a.IsConst() && a.val.Sign() < 0 && b.nonneg {
		return tTrue
	}
	if b.IsConst() && b.val.Sign() <= 0 && a.nonneg {
		return tFalse
	}
	if a.IsConst() && a.val.Sign() == 0 && b.pos {
		return tTrue
	}
	return c.mk("<", SBool, a, b)
}

func (c *TermCtx) Le(a, b *Term) *Term {
	if a == b {
		return tTrue
	}
	if a.IsConst() && b.IsConst() {
		return mkBool(a.val.Cmp(b.val) <= 0)
	}
	if a.IsConst() && a.val.Sign() <= 0 && b.nonneg {
		return tTrue
	}
	if b.IsConst() && b.val.Sign() <= 0 && a.pos {
		return tFalse
	}
	return c.mk("<=", SBool, a, b)
}

func (c *TermCtx) Gt(a, b *Term) *Term { return c.Lt(b, a) }
func (c *TermCtx) Ge(a, b *Term) *Term { return c.Le(b, a) }
func (c *TermCtx) Ne(a, b *Term) *Term { return c.Not(c.Eq(a, b)) }

// ---------- booleans ----------

func (c *TermCtx) Not(a *Term) *Term {
	if a.IsConst() {
		return mkBool(!a.b)
	}
	if a.op == "not" {
		return a.args[0]
	}
	return c.mk("not", SBool, a)
}

func (c *TermCtx) And(ts ...*Term) *Term {
	var out []*Term
	for _, t := range ts {
		if t.IsConst() {
			if !t.b {
				return tFalse
			}
			continue
		}
		dup := false
		for _, o := range out {
			if o == t {
				dup = true
			}
		}
		if !dup {
			out = append(out, t)
		}
	}
	switch len(out) {
	case 0:
		return tTrue
	case 1:
		return out[0]
	}
	return c.mk("and", SBool, out...)
}

func (c *TermCtx) Or(ts ...*Term) *Term {
	var out []*Term
	for _, t := range ts {
		if t.IsConst() {
			if t.b {
				return tTrue
			}
			continue
		}
		dup := false
		for _, o := range out {
			if o == t {
				dup = true
			}
		}
		if !dup {
			out = append(out, t)
		}
	}
	switch len(out) {
	case 0:
		return tFalse
	case 1:
		return out[0]
	}
	return c.mk("or", SBool, out...)
}

func (c *TermCtx) Implies(a, b *Term) *Term { return c.Or(c.Not(a), b) }

func (c *TermCtx) Ite(cond, a, b *Term) *Term {
	if cond.IsConst() {
		if cond.b {
			return a
		}
		return b
	}
	if a == b {
		return a
	}
	if a.sort == SBool {
		if a.IsConst() && b.IsConst() {
			if a.b {
				return cond
			}
			return c.Not(cond)
		}
	}
	t := c.mk("ite", a.sort, cond, a, b)
	if a.bits > 0 && b.bits > 0 {
		t.bits = maxi(a.bits, b.bits)
	}
	t.nonneg = a.nonneg && b.nonneg
	t.pos = a.pos && b.pos
	return t
}

func (c *TermCtx) Min(a, b *Term) *Term { return c.Ite(c.Le(a, b), a, b) }
func (c *TermCtx) Max(a, b *Term) *Term { return c.Ite(c.Le(a, b), b, a) }

var pow2cache = map[int]*big.Int{}

func pow2(n int) *big.Int {
	return new(big.Int).Lsh(big.NewInt(1), uint(n))
}

// wrap reduces t into the range of a machine integer type.
func (c *TermCtx) wrapUnsigned(t *Term, bits int) *Term {
	if t.IsConst() {
		return mkInt(new(big.Int).Mod(t.val, pow2(bits)))
	}
	if t.nonneg && t.bits > 0 && t.bits <= bits {
		return t
	}
	r := c.modPos(t, mkInt(pow2(bits)))
	r.bits = bits
	return r
}

func (c *TermCtx) wrapSigned(t *Term, bits int) *Term {
	half := pow2(bits - 1)
	if t.IsConst() {
		v := new(big.Int).Add(t.val, half)
		v.Mod(v, pow2(bits))
		v.Sub(v, half)
		return mkInt(v)
	}
	if t.bits > 0 && t.bits <= bits-1 {
		return t
	}
	r := c.Sub(c.modPos(c.Add(t, mkInt(half)), mkInt(pow2(bits))), mkInt(half))
	r.bits = bits - 1 + 1
	return r
}
