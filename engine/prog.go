package main

import (
	"bytes"
	"fmt"
	"go/token"
	"os"
	"os/exec"
	"strings"
	"sync"
	"time"

	"golang.org/x/tools/go/packages"
	"golang.org/x/tools/go/ssa"
	"golang.org/x/tools/go/ssa/ssautil"
)

const modulePath = "github.com/tendermint/fundraising"

type Program struct {
	ssaProg    *ssa.Program
	fset       *token.FileSet
	pkgs       []*packages.Package
	props      *ssa.Package
	solverName string
	trace      bool
	loadSecs   float64
	built      map[*ssa.Package]bool
}

func (p *Program) inModule(path string) bool {
	return path == modulePath || strings.HasPrefix(path, modulePath+"/")
}

var deniedPkgs = map[string]bool{
	"sync": true, "sync/atomic": true, "reflect": true, "runtime": true, "os": true, "io": true,
	"net": true, "syscall": true, "unsafe": true, "internal/reflectlite": true, "time": true,
	"fmt": true, "regexp": true, "encoding/json": true, "log": true,
}

func (p *Program) denyPkg(path string) bool {
	return deniedPkgs[path]
}

func (p *Program) funcPos(f *ssa.Function) string {
	pos := f.Pos()
	if pos == token.NoPos && f.Origin() != nil {
		pos = f.Origin().Pos()
	}
	if pos == token.NoPos {
		return "?"
	}
	ps := p.fset.Position(pos)
	return fmt.Sprintf("%s:%d", shortFile(ps.Filename), ps.Line)
}

func loadProgram(harnessDir string, pattern string) (*Program, error) {
	t0 := time.Now()
	cfg := &packages.Config{
		Mode:       packages.LoadAllSyntax,
		Dir:        harnessDir,
		BuildFlags: []string{"-tags=verifsym"},
		Env:        append(os.Environ(), "GOFLAGS=-mod=mod", "GOPROXY=off", "GOSUMDB=off", "GOTOOLCHAIN=local"),
	}
	pkgs, err := packages.Load(cfg, pattern)
	if err != nil {
		return nil, err
	}
	nerr := 0
	packages.Visit(pkgs, nil, func(p *packages.Package) {
		for _, e := range p.Errors {
			if nerr < 20 {
				fmt.Fprintln(os.Stderr, "load error:", e)
			}
			nerr++
		}
	})
	if nerr > 0 {
		return nil, fmt.Errorf("%d package load errors", nerr)
	}
	prog, ssaPkgs := ssautil.AllPackages(pkgs, ssa.InstantiateGenerics)
	p := &Program{ssaProg: prog, fset: prog.Fset, pkgs: pkgs, built: map[*ssa.Package]bool{}}
	for i, sp := range ssaPkgs {
		if sp != nil && pkgs[i].PkgPath == "verif/harness/props" {
			p.props = sp
		}
	}
	for _, sp := range prog.AllPackages() {
		path := sp.Pkg.Path()
		if p.inModule(path) || strings.HasPrefix(path, "verif/harness") {
			sp.Build()
		}
	}
	if p.props == nil {
		return nil, fmt.Errorf("package verif/harness/props not found")
	}
	p.loadSecs = time.Since(t0).Seconds()
	return p, nil
}

func runOneShot(solver, script string, timeoutMs int) string {
	var argv []string
	switch solver {
	case "cvc5":
		argv = []string{"cvc5", "--lang=smt2", fmt.Sprintf("--tlimit=%d", timeoutMs)}
	case "z3":
		argv = []string{"z3", "-in", fmt.Sprintf("-t:%d", timeoutMs)}
	case "z3-new":
		argv = []string{"z3-new", "-in", fmt.Sprintf("-t:%d", timeoutMs)}
	default:
		return "unknown"
	}
	cmd := exec.Command(argv[0], argv[1:]...)
	cmd.Stdin = strings.NewReader(script)
	var out bytes.Buffer
	cmd.Stdout = &out
	cmd.Stderr = &out
	done := make(chan error, 1)
	if err := cmd.Start(); err != nil {
		return "unknown"
	}
	go func() { done <- cmd.Wait() }()
	select {
	case <-done:
	case <-time.After(time.Duration(timeoutMs)*time.Millisecond + 10*time.Second):
		cmd.Process.Kill()
		<-done
		return "unknown"
	}
	txt := out.String()
	if strings.Contains(txt, "(error") {
		return "unknown"
	}
	for _, l := range strings.Split(txt, "\n") {
		l = strings.TrimSpace(l)
		if l == "sat" || l == "unsat" {
			return l
		}
	}
	return "unknown"
}

// builtPkg / markBuilt: packages whose Build() has returned (sync.Map: read-mostly, many workers).
var builtPkgs sync.Map

func (p *Program) builtPkg(pk *ssa.Package) bool { _, ok := builtPkgs.Load(pk); return ok }
func (p *Program) markBuilt(pk *ssa.Package)     { builtPkgs.Store(pk, true) }
