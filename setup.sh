#!/bin/bash
# Builds the engine (offline). Run once after a fresh restore: MANIFEST.setup_cmd.
set -e
cd "$(dirname "$0")"
export GOFLAGS=-mod=mod GOPROXY=off GOSUMDB=off GOTOOLCHAIN=local
mkdir -p bin evidence replays .work
(cd engine && go build -o ../bin/gosym .)
# warm the native replay build (real build of /repo + harnesses); not required for correctness
(cd harness && go build -o ../.work/replay-warm ./cmd/replay && rm -f ../.work/replay-warm) || true
echo "setup ok"
